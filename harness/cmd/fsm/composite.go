package main

import (
	"bufio"
	"context"
	"errors"
	"fmt"
	"strings"
	"sync"
	"sync/atomic"
	"time"

	"github.com/robbyt/go-supervisor/runnables/composite"
	"github.com/robbyt/go-supervisor/verif_harness/internal/director"
	"github.com/robbyt/go-supervisor/verif_harness/internal/prng"
)

// child is a contract mock: Run blocks until its context is cancelled, Stop is called or a
// failure is injected.
type child struct {
	name   string
	failCh chan error
	mu     sync.Mutex
	stopCh chan struct{}
}

func newChild(name string) *child {
	return &child{name: name, failCh: make(chan error, 1), stopCh: make(chan struct{})}
}
func (c *child) String() string { return c.name }
func (c *child) Run(ctx context.Context) error {
	c.mu.Lock()
	c.stopCh = make(chan struct{})
	sc := c.stopCh
	c.mu.Unlock()
	select {
	case <-ctx.Done():
		return nil
	case <-sc:
		return nil
	case e := <-c.failCh:
		return e
	}
}
func (c *child) Stop() {
	c.mu.Lock()
	defer c.mu.Unlock()
	select {
	case <-c.stopCh:
	default:
		close(c.stopCh)
	}
}

// common labels of the three runner models (codes in coq/model/FsmRunners.v)
const (
	evRunCall    = "1,1"
	evRunRetNil  = "1,2,1"
	evRunRetErr  = "1,2,0"
	evStopCall   = "1,3"
	evStopRet    = "1,4"
	evCancel     = "1,5"
	evFail       = "1,6" // child failure / server failure
	evReloadCall = "1,7" // also: config sent on the cluster's siphon
	evReloadRet  = "1,8"
	evCbOk       = "1,9,1"
	evCbBad      = "1,9,0"
)

type runner interface {
	stateable
	Run(ctx context.Context) error
	Stop()
}

// drive is the part of a scenario shared by the three runners.
type drive struct {
	l      *log
	r      runner
	rng    *prng.R
	ph     *director.ParkHandler
	ctx    context.Context
	cancel context.CancelFunc
	rr     *runResult
	subs   []*subRec
	wg     sync.WaitGroup
	notes  []string
	nmu    sync.Mutex
	stopWg sync.WaitGroup
	pending []chan *subRec
}

func newDrive(rng *prng.R, ph *director.ParkHandler) *drive {
	d := &drive{l: &log{}, rng: rng, ph: ph, rr: &runResult{done: make(chan struct{})}}
	d.ctx, d.cancel = context.WithCancel(context.Background())
	return d
}

func (d *drive) note(s string) {
	d.nmu.Lock()
	d.notes = append(d.notes, s)
	d.nmu.Unlock()
}

// waitCalls waits (bounded) for the pending Reload / send / async-subscribe goroutines
func (d *drive) waitCalls(max time.Duration) bool {
	ch := make(chan struct{})
	go func() { d.wg.Wait(); close(ch) }()
	return waitCh(ch, max)
}

func (d *drive) quiet() { d.l.rec.WaitQuiescentN(200*time.Millisecond, 3, 200*time.Microsecond) }

func (d *drive) callRun() {
	go func() {
		d.l.emit(evRunCall)
		err := d.r.Run(d.ctx)
		st := d.r.GetState()
		d.rr.mu.Lock()
		d.rr.returned, d.rr.nilErr, d.rr.state = true, err == nil, st
		d.rr.mu.Unlock()
		if err == nil {
			d.l.emit(evRunRetNil)
		} else {
			d.l.emit(evRunRetErr)
		}
		close(d.rr.done)
	}()
}

func (d *drive) callStop() {
	d.stopWg.Add(1)
	go func() {
		defer d.stopWg.Done()
		d.l.emit(evStopCall)
		d.r.Stop()
		d.l.emit(evStopRet)
	}()
}

func (d *drive) callCancel() {
	d.l.emit(evCancel)
	d.cancel()
}

func (d *drive) addSub() {
	delay := 0
	if d.rng.Chance(1, 4) {
		delay = 20 + d.rng.Intn(300)
	}
	lower := d.l.changes
	s := subscribe(d.r, lower, func() int { return -1 }, delay)
	d.subs = append(d.subs, s)
}

// addSlowSub: a subscriber that keeps up, slowly (150-400 ms per value)
func (d *drive) addSlowSub() {
	s := subscribe(d.r, d.l.changes, func() int { return -1 }, slowPauseUS(d.rng))
	d.subs = append(d.subs, s)
	d.note("slowsub")
}

// addSubAsync subscribes from a separate goroutine after a random delay (random subscription time)
func (d *drive) addSubAsync() {
	wait := d.rng.Intn(400)
	delay := 0
	if d.rng.Chance(1, 4) {
		delay = 20 + d.rng.Intn(300)
	}
	d.wg.Add(1)
	ch := make(chan *subRec, 1)
	go func() {
		defer d.wg.Done()
		time.Sleep(time.Duration(wait) * time.Microsecond)
		ch <- subscribe(d.r, d.l.changes, func() int { return -1 }, delay)
	}()
	d.pending = append(d.pending, ch)
}

func (d *drive) cancelSomeSub() {
	if len(d.subs) == 0 {
		return
	}
	s := d.subs[d.rng.Intn(len(d.subs))]
	s.cancelNow(d.l.changes, func() int { return -1 })
}

// finish: make sure Run ends, collect everything, print the case line.
func (d *drive) finish(w *bufio.Writer, kind, id string, refCancel func(), refDone chan struct{}) {
	d.ph.ReleaseAll()
	d.rr.mu.Lock()
	ret := d.rr.returned
	d.rr.mu.Unlock()
	if !ret {
		if !waitCh(d.rr.done, 6*time.Second) {
			d.note("run-hang")
		}
	}
	d.quiet()
	if d.rng.Chance(1, 3) {
		d.l.poll(d.r)
	}
	// all parked / pending API calls must be back before the streams are closed
	doneAll := make(chan struct{})
	go func() { d.stopWg.Wait(); d.wg.Wait(); close(doneAll) }()
	if !waitCh(doneAll, 6*time.Second) {
		d.note("call-hang")
	}
	for _, ch := range d.pending {
		select {
		case s := <-ch:
			d.subs = append(d.subs, s)
		case <-time.After(time.Second):
		}
	}
	d.quiet()
	time.Sleep(300 * time.Microsecond)
	for _, s := range d.subs {
		s.drainWait(8 * time.Second) // slow live consumers: cancel only when nothing is in flight
	}
	for _, s := range d.subs {
		if s.snapshotClosed() {
			s.mu.Lock()
			early := !s.cancel
			s.mu.Unlock()
			if early {
				d.note("closed-without-cancel")
			}
		}
	}
	for _, s := range d.subs {
		s.cancelNow(d.l.changes, func() int { return -1 })
	}
	refCancel()
	waitAll(d.subs, 1500*time.Millisecond)
	if closeMissed.Load() {
		waitCh(refDone, 20*time.Millisecond)
	} else if !waitCh(refDone, 500*time.Millisecond) {
		closeMissed.Store(true)
	}
	d.cancel()
	evs := d.l.rec.Events()
	fmt.Fprintf(w, "RUN\t%s\t%s\t%s\t%s\t%s\t%s\n", kind, id, strings.Join(evs, " "), joinSubs(d.subs, -1), d.rr.String(),
		strings.Join(d.notes, ","))
}

// ---------------------------------------------------------------- composite

var errInjected = errors.New("injected")

func compositeCase(w *bufio.Writer, rng *prng.R, id string) {
	ph := &director.ParkHandler{}
	d := newDrive(rng, ph)
	nch := rng.Intn(3)
	var kids []*child
	for i := 0; i < nch; i++ {
		kids = append(kids, newChild(fmt.Sprintf("k%d", i)))
	}
	extra := newChild("extra")
	var cbMode atomic.Int32   // 0 ok, 1 error, 2 nil config
	var withExtra atomic.Bool // membership
	cb := func() (*composite.Config[*child], error) {
		switch cbMode.Load() {
		case 1:
			d.l.emit(evCbBad)
			return nil, errInjected
		case 2:
			d.l.emit(evCbBad)
			return nil, nil
		}
		d.l.emit(evCbOk)
		ks := append([]*child(nil), kids...)
		if withExtra.Load() {
			ks = append(ks, extra)
		}
		return composite.NewConfigFromRunnables("c", ks, nil)
	}
	r, err := composite.NewRunner(cb, composite.WithLogHandler[*child](ph))
	if err != nil {
		panic(err)
	}
	d.r = r
	refCancel, refDone := d.l.startRef(r)
	reload := func(mode int32, flip bool) {
		d.wg.Add(1)
		go func() {
			defer d.wg.Done()
			d.l.emit(evReloadCall)
			cbMode.Store(mode)
			if flip {
				withExtra.Store(!withExtra.Load())
			}
			r.Reload(context.Background())
			d.l.emit(evReloadRet)
		}()
	}
	randomReload := func() {
		switch rng.Intn(5) {
		case 0:
			reload(1, false)
		case 1:
			reload(2, false)
		case 2:
			reload(0, true)
		default:
			reload(0, false)
		}
	}
	failChild := func() {
		if len(kids) == 0 {
			return
		}
		k := kids[rng.Intn(len(kids))]
		d.l.emit(evFail)
		select {
		case k.failCh <- errInjected:
		default:
		}
	}
	// ---- before Run
	if rng.Chance(1, 8) {
		d.addSub()
	}
	if rng.Chance(1, 10) {
		randomReload()
		d.quiet()
	}
	if rng.Chance(1, 12) {
		d.callStop()
	}
	if rng.Chance(1, 12) {
		d.callCancel()
	}
	if rng.Chance(1, 10) {
		cbMode.Store(int32(1 + rng.Intn(2))) // boot failure: the first getConfig() fails
	}
	var lateReload bool
	var endPark *director.Park
	if rng.Chance(1, 8) {
		// the recorded finding's shape: a Reload lands between Run's Stopped transition and its return
		lateReload = true
		endPark = ph.ParkOn("All child runnables shut down gracefully")
	}
	if rng.Chance(1, 3) {
		d.addSubAsync()
	}
	d.callRun()
	d.quiet()
	if rng.Chance(1, 2) {
		d.l.poll(r)
	}
	// ---- while running
	steps := rng.Intn(5)
	for i := 0; i < steps; i++ {
		switch k := rng.Intn(12); {
		case k < 3:
			cbMode.Store(0)
			randomReload()
		case k < 5:
			// a Reload parked on one of its log records, with something racing it
			msgs := []string{"Reloading...", "Reloaded runnables", "Membership change detected", "Failed to get updated config",
				"Failed to transition to Reloading", "Config updated", "Completed."}
			p := ph.ParkOn(prng.Pick(rng, msgs))
			randomReload()
			if p.WaitReached(30 * time.Millisecond) {
				d.note("park")
				d.quiet()
				switch rng.Intn(5) {
				case 0:
					d.callStop()
				case 1:
					d.callCancel()
				case 2:
					failChild()
				case 3:
					d.l.poll(r)
				default:
					d.addSub()
				}
				d.quiet()
				if rng.Chance(1, 2) {
					d.l.poll(r)
				}
			}
			p.Release()
		case k < 6:
			failChild()
		case k < 8:
			d.l.poll(r)
		case k < 9:
			d.addSub()
		case k < 10:
			d.addSubAsync()
		case k < 11:
			d.cancelSomeSub()
		default:
			time.Sleep(time.Duration(rng.Intn(300)) * time.Microsecond)
		}
		if rng.Chance(2, 3) {
			d.quiet()
		}
	}
	// ---- ending
	d.quiet()
	d.rr.mu.Lock()
	ret := d.rr.returned
	d.rr.mu.Unlock()
	if !ret {
		if rng.Chance(1, 6) {
			// Stop racing a Reload that is parked after its Reloading transition
			p := ph.ParkOn(prng.Pick(rng, []string{"Reloaded runnables", "Config updated"}))
			cbMode.Store(0)
			reload(0, rng.Bool())
			if p.WaitReached(30 * time.Millisecond) {
				d.note("stop-during-reload")
			}
			d.callStop()
			d.quiet()
			d.l.poll(r)
			p.Release()
		} else if rng.Chance(2, 3) {
			d.callStop()
		} else {
			d.callCancel()
		}
	}
	if lateReload && endPark.WaitReached(200*time.Millisecond) {
		d.note("late-reload")
		cbMode.Store(0)
		reload(0, false)
		d.waitCalls(150 * time.Millisecond) // bounded: a repaired Run may exclude Reload until it has returned
		d.quiet()
		endPark.Release()
	}
	if waitCh(d.rr.done, 3*time.Second) && rng.Chance(1, 6) {
		cbMode.Store(0)
		randomReload() // Reload on a finished runner
	}
	d.finish(w, "composite", id, refCancel, refDone)
}

// ---------------------------------------------------------------- composite, failure families (mode compfail)

// fchild is a contract mock like child, plus: a real (non-cancellation) error returned from Run()
// in reaction to Stop() (stopErr) or to the cancellation of its context (cancelErr), and a
// director-controlled hold inside ReloadWithConfig (a child that is slow to reload).
type fchild struct {
	name               string
	l                  *log
	failCh             chan error
	mu                 sync.Mutex
	stopCh             chan struct{}
	stopErr, cancelErr error

	holdMu  sync.Mutex
	hold    chan struct{}
	holding chan struct{}
	entered bool
}

var errOnStop = errors.New("teardown failed")
var errOnCancel = errors.New("aborted with an error of its own")

func newFChild(name string, l *log) *fchild {
	return &fchild{name: name, l: l, failCh: make(chan error, 1), stopCh: make(chan struct{})}
}
func (c *fchild) String() string { return c.name }
func (c *fchild) Run(ctx context.Context) error {
	c.mu.Lock()
	c.stopCh = make(chan struct{})
	sc := c.stopCh
	c.mu.Unlock()
	select {
	case <-ctx.Done():
		if c.cancelErr != nil {
			c.l.emit(evFail) // logged before the error can reach the composite
			return c.cancelErr
		}
		return ctx.Err()
	case <-sc:
		if c.stopErr != nil {
			c.l.emit(evFail)
			return c.stopErr
		}
		return nil
	case e := <-c.failCh:
		return e
	}
}
func (c *fchild) Stop() {
	c.mu.Lock()
	defer c.mu.Unlock()
	select {
	case <-c.stopCh:
	default:
		close(c.stopCh)
	}
}
func (c *fchild) ReloadWithConfig(any) {
	c.holdMu.Lock()
	h, hg := c.hold, c.holding
	first := h != nil && !c.entered
	if first {
		c.entered = true
	}
	c.holdMu.Unlock()
	if first {
		close(hg)
		<-h
	}
}
func (c *fchild) armHold() chan struct{} {
	c.holdMu.Lock()
	defer c.holdMu.Unlock()
	c.hold, c.holding, c.entered = make(chan struct{}), make(chan struct{}), false
	return c.holding
}
func (c *fchild) unhold() {
	c.holdMu.Lock()
	if c.hold != nil {
		close(c.hold)
		c.hold = nil
	}
	c.holdMu.Unlock()
}

// compositeFailCase: (i) a child fails while a Reload() is in progress - blocked inside a child's
// ReloadWithConfig, parked on one of its log records (in place / before and after stopAllRunnables and
// boot), waiting for reloadMu - then the reload is let go; (ii) children that return a real error from
// Run() in reaction to Stop()/cancel, alone and racing Stop()/cancel/Reload().  Everything observed as
// in compositeCase: Run()'s result and the state read at its return, the reference subscriber's whole
// stream, extra subscribers, polls.
func compositeFailCase(w *bufio.Writer, rng *prng.R, id string) {
	ph := &director.ParkHandler{}
	d := newDrive(rng, ph)
	nch := 1 + rng.Intn(3)
	var kids []*fchild
	for i := 0; i < nch; i++ {
		kids = append(kids, newFChild(fmt.Sprintf("k%d", i), d.l))
	}
	extra := newFChild("extra", d.l)
	var withExtra atomic.Bool
	cb := func() (*composite.Config[*fchild], error) {
		d.l.emit(evCbOk)
		ks := append([]*fchild(nil), kids...)
		if withExtra.Load() {
			ks = append(ks, extra)
		}
		return composite.NewConfigFromRunnables("c", ks, nil)
	}
	r, err := composite.NewRunner(cb, composite.WithLogHandler[*fchild](ph))
	if err != nil {
		panic(err)
	}
	d.r = r
	refCancel, refDone := d.l.startRef(r)
	defer func() {
		for _, k := range append(kids, extra) {
			k.unhold()
		}
	}()
	reload := func(flip bool) {
		d.wg.Add(1)
		go func() {
			defer d.wg.Done()
			d.l.emit(evReloadCall)
			if flip {
				withExtra.Store(!withExtra.Load())
			}
			r.Reload(context.Background())
			d.l.emit(evReloadRet)
		}()
	}
	failChild := func() {
		k := kids[rng.Intn(len(kids))]
		d.l.emit(evFail)
		select {
		case k.failCh <- errInjected:
		default:
		}
	}
	errKids := func(onStop, onCancel bool) {
		some := false
		for _, k := range append(kids, extra) {
			if rng.Chance(2, 3) {
				some = true
				if onStop {
					k.stopErr = errOnStop
				}
				if onCancel {
					k.cancelErr = errOnCancel
				}
			}
		}
		if !some {
			if onStop {
				kids[0].stopErr = errOnStop
			}
			if onCancel {
				kids[0].cancelErr = errOnCancel
			}
		}
	}
	inPlace := []string{"Updating config", "Config updated", "Reloading configs of existing runnables",
		"Reloading child runnable with config", "Reloaded runnables without membership change"}
	beforeStop := []string{"Membership change detected", "Reloading runnables due to membership change", "Stopping child runnable"}
	afterStop := []string{"Updating config after stopping", "Config updated", "Starting child runnables"}
	afterBoot := []string{"All child runnables launched", "Reloaded runnables due to membership change", "Completed."}
	// a reload parked on a record of the given class; returns the park (nil if it was not reached)
	parkedReload := func(class int) *director.Park {
		var msgs []string
		flip := true
		switch class {
		case 0:
			msgs, flip = inPlace, false
		case 1:
			msgs = beforeStop
		case 2:
			msgs = afterStop
		default:
			msgs = afterBoot
		}
		p := ph.ParkOn(prng.Pick(rng, msgs))
		reload(flip)
		if p.WaitReached(300 * time.Millisecond) {
			d.note("park")
			d.quiet()
			return p
		}
		p.Release()
		return nil
	}
	if rng.Chance(1, 4) {
		d.addSub()
	}
	if rng.Chance(1, 4) {
		d.addSubAsync()
	}
	v := rng.Intn(10)
	d.note(fmt.Sprintf("v%d", v))
	var runPark *director.Park
	switch v {
	case 0, 3, 4:
		errKids(true, rng.Bool())
	case 1:
		errKids(rng.Bool(), true)
	case 2:
		runPark = ph.ParkOn("Stop() called")
		if rng.Bool() {
			errKids(true, false)
		}
	}
	d.callRun()
	d.quiet()
	if rng.Chance(1, 2) {
		d.l.poll(r)
	}
	if rng.Chance(1, 5) { // an earlier undisturbed reload
		reload(rng.Chance(1, 3))
		d.waitCalls(2 * time.Second)
		d.quiet()
	}
	switch v {
	case 0:
		d.callStop()
	case 1:
		d.callCancel()
	case 2: // Run() is past its select on the Stop() branch when a child fails on its own
		d.callStop()
		if runPark.WaitReached(300 * time.Millisecond) {
			d.note("park")
			failChild()
			d.quiet()
			if rng.Bool() {
				d.l.poll(r)
			}
		}
		runPark.Release()
	case 3: // Stop() and a Reload() together
		if rng.Bool() {
			d.callStop()
			reload(rng.Bool())
		} else {
			reload(rng.Bool())
			d.callStop()
		}
	case 4: // a parked Reload(), then Stop()/cancel, then the reload is let go
		p := parkedReload(rng.Intn(4))
		if rng.Chance(2, 3) {
			d.callStop()
		} else {
			d.callCancel()
		}
		d.quiet()
		if rng.Bool() {
			d.l.poll(r)
		}
		if p != nil {
			p.Release()
		}
	case 5: // a child fails while an in-place Reload() is blocked inside a child's ReloadWithConfig
		h := kids[rng.Intn(len(kids))]
		hg := h.armHold()
		reload(false)
		if waitCh(hg, 300*time.Millisecond) {
			d.note("park")
			d.quiet()
			failChild()
			d.quiet()
			d.l.poll(r)
		}
		h.unhold()
	case 6: // a child fails while a Reload() is parked on one of its records
		p := parkedReload(rng.Intn(4))
		failChild()
		d.quiet()
		d.l.poll(r)
		if p != nil {
			p.Release()
		}
	case 7: // the failing child's goroutine is parked before its report; a Reload() starts; the report is let through
		cp := ph.ParkOn("Returned unexpected error")
		failChild()
		if cp.WaitReached(300 * time.Millisecond) {
			d.note("park")
			var p *director.Park
			if rng.Bool() {
				p = parkedReload(rng.Intn(2)) // in place, or before the Stop() calls of a restart
			} else {
				reload(rng.Bool()) // a restart blocks in the drain of stopAllRunnables behind the parked goroutine
				d.quiet()
			}
			cp.Release()
			d.quiet()
			d.l.poll(r)
			if p != nil {
				p.Release()
			}
		}
		cp.Release()
	case 8: // a second Reload() waits for reloadMu behind a parked one when the child fails
		p := parkedReload(rng.Intn(2))
		reload(rng.Bool())
		d.quiet()
		failChild()
		d.quiet()
		d.l.poll(r)
		if p != nil {
			p.Release()
		}
	default: // Run()'s failure teardown is parked inside stopAllRunnables (holding reloadMu); a Reload() waits
		p := ph.ParkOn("Stopping child runnable")
		failChild()
		if p.WaitReached(300 * time.Millisecond) {
			d.note("park")
			reload(rng.Bool())
			d.quiet()
			d.l.poll(r)
		}
		p.Release()
	}
	d.waitCalls(2 * time.Second)
	d.quiet()
	if rng.Bool() {
		d.l.poll(r)
	}
	d.rr.mu.Lock()
	ret := d.rr.returned
	d.rr.mu.Unlock()
	if !ret {
		if rng.Chance(2, 3) {
			d.callStop()
		} else {
			d.callCancel()
		}
	}
	if waitCh(d.rr.done, 3*time.Second) && rng.Chance(1, 6) {
		reload(false) // Reload on a finished runner
	}
	d.finish(w, "composite", id, refCancel, refDone)
}

// ---------------------------------------------------------------- slow live consumers (mode slowlive)

// slowLiveComposite: a composite runner observed by a subscriber that keeps up SLOWLY (150-400 ms per
// value, live subscription, far below the 5 s broadcast timeout): subscribed before Run or while Running,
// then Run / an optional Reload / Stop or cancel in quick succession, so that several changes pile up
// behind the consumer's pause.  Every change must arrive, in order; the subscription is cancelled only
// after the consumer has drained.
func slowLiveComposite(w *bufio.Writer, rng *prng.R, id string) {
	ph := &director.ParkHandler{}
	d := newDrive(rng, ph)
	kids := []*child{newChild("k0")}
	if rng.Bool() {
		kids = append(kids, newChild("k1"))
	}
	cb := func() (*composite.Config[*child], error) {
		d.l.emit(evCbOk)
		return composite.NewConfigFromRunnables("c", kids, nil)
	}
	r, err := composite.NewRunner(cb, composite.WithLogHandler[*child](ph))
	if err != nil {
		panic(err)
	}
	d.r = r
	refCancel, refDone := d.l.startRef(r)
	before := rng.Bool()
	if before {
		d.addSlowSub()
	}
	d.callRun()
	if !before {
		d.quiet()
		d.addSlowSub()
	}
	if rng.Bool() {
		d.wg.Add(1)
		go func() {
			defer d.wg.Done()
			d.l.emit(evReloadCall)
			r.Reload(context.Background())
			d.l.emit(evReloadRet)
		}()
		d.waitCalls(5 * time.Second)
	}
	if rng.Chance(2, 3) {
		d.callStop()
	} else {
		d.callCancel()
	}
	waitCh(d.rr.done, 8*time.Second)
	d.finish(w, "composite", id, refCancel, refDone)
}
