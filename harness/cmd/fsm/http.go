package main

import (
	"bufio"
	"context"
	"fmt"
	"net"
	"net/http"
	"sync"
	"sync/atomic"
	"time"

	"github.com/robbyt/go-supervisor/runnables/httpcluster"
	"github.com/robbyt/go-supervisor/runnables/httpserver"
	"github.com/robbyt/go-supervisor/verif_harness/internal/director"
	"github.com/robbyt/go-supervisor/verif_harness/internal/prng"
)

// freePort asks the OS for a free loopback port (bind :0, read it, release it).
func freePort() string {
	ln, err := net.Listen("tcp", "127.0.0.1:0")
	if err != nil {
		panic(err)
	}
	defer ln.Close()
	return ln.Addr().String()
}

// fsrv is a real net/http server on its own listener, so that a failure of the running server
// can be injected by closing the listener (Serve then returns a non-ErrServerClosed error).
type fsrv struct {
	addr string
	srv  *http.Server
	mu   sync.Mutex
	ln   net.Listener
}

func (f *fsrv) ListenAndServe() error {
	ln, err := net.Listen("tcp", f.addr)
	if err != nil {
		return err
	}
	f.mu.Lock()
	f.ln = ln
	f.mu.Unlock()
	return f.srv.Serve(ln)
}
func (f *fsrv) Shutdown(ctx context.Context) error { return f.srv.Shutdown(ctx) }
func (f *fsrv) fail() bool {
	f.mu.Lock()
	defer f.mu.Unlock()
	if f.ln == nil {
		return false
	}
	f.ln.Close()
	return true
}

func okRoute(path string) httpserver.Routes {
	rt, err := httpserver.NewRouteFromHandlerFunc("r", path, func(w http.ResponseWriter, _ *http.Request) { w.WriteHeader(200) })
	if err != nil {
		panic(err)
	}
	return httpserver.Routes{*rt}
}

func httpCase(w *bufio.Writer, rng *prng.R, id string) {
	ph := &director.ParkHandler{}
	d := newDrive(rng, ph)
	var curSrv atomic.Pointer[fsrv]
	creator := func(addr string, h http.Handler, _ *httpserver.Config) httpserver.HttpServer {
		f := &fsrv{addr: addr, srv: &http.Server{Handler: h}}
		curSrv.Store(f)
		return f
	}
	addr := freePort()
	gen := 0
	mkCfg := func(a string, drainMS int) *httpserver.Config {
		c, err := httpserver.NewConfig(a, okRoute("/"), httpserver.WithDrainTimeout(time.Duration(drainMS)*time.Millisecond),
			httpserver.WithServerCreator(creator))
		if err != nil {
			panic(err)
		}
		return c
	}
	var cfg atomic.Pointer[httpserver.Config]
	cfg.Store(mkCfg(addr, 300))
	var cbMode atomic.Int32
	var armed atomic.Bool
	cb := func() (*httpserver.Config, error) {
		if !armed.Load() {
			return cfg.Load(), nil // the load inside NewRunner
		}
		switch cbMode.Load() {
		case 1:
			d.l.emit(evCbBad)
			return nil, errInjected
		case 2:
			d.l.emit(evCbBad)
			return nil, nil
		}
		d.l.emit(evCbOk)
		return cfg.Load(), nil
	}
	r, err := httpserver.NewRunner(httpserver.WithConfigCallback(cb), httpserver.WithLogHandler(ph))
	if err != nil {
		panic(err)
	}
	armed.Store(true)
	d.r = r
	refCancel, refDone := d.l.startRef(r)
	var blockers []net.Listener
	defer func() {
		for _, b := range blockers {
			b.Close()
		}
	}()
	occupy := func(a string) {
		if ln, err := net.Listen("tcp", a); err == nil {
			blockers = append(blockers, ln)
		}
	}
	reload := func(kind int) {
		// 0 same config, 1 new config (same port), 2 callback error, 3 callback nil, 4 new config on an occupied port
		switch kind {
		case 1:
			gen++
			cfg.Store(mkCfg(addr, 300+gen))
		case 4:
			a := freePort()
			occupy(a)
			cfg.Store(mkCfg(a, 300))
		}
		d.wg.Add(1)
		go func() {
			defer d.wg.Done()
			d.l.emit(evReloadCall)
			switch kind {
			case 2:
				cbMode.Store(1)
			case 3:
				cbMode.Store(2)
			default:
				cbMode.Store(0)
			}
			r.Reload(context.Background())
			d.l.emit(evReloadRet)
		}()
	}
	randomReload := func() { reload(prng.Pick(rng, []int{0, 0, 1, 1, 2, 3, 4})) }
	failSrv := func() {
		if f := curSrv.Load(); f != nil {
			d.l.emit(evFail)
			f.fail()
		}
	}
	settle := func() {
		// wait (bounded) until a boot in progress has finished: the readiness probe sleeps on a ticker
		deadline := time.Now().Add(1500 * time.Millisecond)
		for time.Now().Before(deadline) {
			d.rr.mu.Lock()
			ret := d.rr.returned
			d.rr.mu.Unlock()
			s := r.GetState()
			if ret || (s != "Booting" && s != "Reloading" && s != "New") {
				break
			}
			time.Sleep(2 * time.Millisecond)
		}
		d.quiet()
	}
	// ---- before Run
	if rng.Chance(1, 8) {
		occupy(addr) // boot failure: the address cannot be bound
	}
	if rng.Chance(1, 10) {
		randomReload()
		d.wg.Wait()
	}
	if rng.Chance(1, 12) {
		d.callStop()
	}
	if rng.Chance(1, 12) {
		d.callCancel()
	}
	if rng.Chance(1, 4) {
		d.addSubAsync()
	}
	var endPark *director.Park
	if rng.Chance(1, 8) {
		endPark = ph.ParkOn("HTTP server shutdown complete")
	}
	d.callRun()
	if rng.Chance(1, 3) {
		d.quiet()
		d.l.poll(r) // typically Booting
	}
	settle()
	d.l.poll(r)
	steps := rng.Intn(4)
	for i := 0; i < steps; i++ {
		switch k := rng.Intn(12); {
		case k < 3:
			randomReload()
			if rng.Chance(2, 3) {
				d.wg.Wait()
				d.quiet()
			}
		case k < 6:
			msgs := []string{"Reloading...", "Config reloaded", "Config unchanged, skipping reload", "Failed to reload configuration",
				"Failed to transition to Reloading", "Starting HTTP server", "Completed."}
			p := ph.ParkOn(prng.Pick(rng, msgs))
			randomReload()
			if p.WaitReached(300 * time.Millisecond) {
				d.note("park")
				d.quiet()
				switch rng.Intn(5) {
				case 0:
					d.callStop()
				case 1:
					d.callCancel()
				case 2:
					failSrv()
				case 3:
					d.l.poll(r)
				default:
					d.addSub()
				}
				d.quiet()
				d.l.poll(r)
			}
			p.Release()
			if rng.Chance(1, 2) {
				d.wg.Wait()
			}
		case k < 7:
			failSrv()
			settle()
		case k < 9:
			d.l.poll(r)
		case k < 10:
			d.addSub()
		case k < 11:
			d.addSubAsync()
		default:
			d.cancelSomeSub()
		}
	}
	d.quiet()
	d.rr.mu.Lock()
	ret := d.rr.returned
	d.rr.mu.Unlock()
	if !ret {
		if rng.Chance(1, 4) {
			p := ph.ParkOn(prng.Pick(rng, []string{"Config reloaded", "Config unchanged, skipping reload"}))
			reload(rng.Intn(2))
			if p.WaitReached(300 * time.Millisecond) {
				d.note("stop-during-reload")
			}
			d.callStop()
			d.quiet()
			d.l.poll(r)
			p.Release()
		} else if rng.Chance(2, 3) {
			d.callStop()
		} else {
			d.callCancel()
		}
	}
	if endPark != nil && endPark.WaitReached(1500*time.Millisecond) {
		d.note("late-reload")
		reload(0)
		d.waitCalls(150 * time.Millisecond) // bounded: a repaired Run may exclude Reload until it has returned
		d.quiet()
		endPark.Release()
	}
	if waitCh(d.rr.done, 4*time.Second) && rng.Chance(1, 6) {
		reload(rng.Intn(2))
	}
	d.finish(w, "http", id, refCancel, refDone)
}

// ---------------------------------------------------------------- cluster

func clusterCase(w *bufio.Writer, rng *prng.R, id string) {
	ph := &director.ParkHandler{}
	d := newDrive(rng, ph)
	r, err := httpcluster.NewRunner(httpcluster.WithLogHandler(ph))
	if err != nil {
		panic(err)
	}
	d.r = r
	refCancel, refDone := d.l.startRef(r)
	siphon := r.GetConfigSiphon()
	mk := func(a string, drainMS int) *httpserver.Config {
		c, err := httpserver.NewConfig(a, okRoute("/"), httpserver.WithDrainTimeout(time.Duration(drainMS)*time.Millisecond))
		if err != nil {
			panic(err)
		}
		return c
	}
	addrA := freePort()
	gen := 0
	send := func(kind int) {
		var m map[string]*httpserver.Config
		switch kind {
		case 0:
			m = map[string]*httpserver.Config{}
		case 1:
			m = map[string]*httpserver.Config{"a": mk(addrA, 200)}
		default:
			gen++
			m = map[string]*httpserver.Config{"a": mk(addrA, 200+gen)}
		}
		d.wg.Add(1)
		go func() {
			defer d.wg.Done()
			d.l.emit(evReloadCall)
			select {
			case siphon <- m:
			case <-time.After(1500 * time.Millisecond):
				d.note("send-timeout")
			}
		}()
	}
	settle := func() {
		deadline := time.Now().Add(2500 * time.Millisecond)
		for time.Now().Before(deadline) {
			d.rr.mu.Lock()
			ret := d.rr.returned
			d.rr.mu.Unlock()
			if ret || r.GetState() != "Reloading" {
				break
			}
			time.Sleep(2 * time.Millisecond)
		}
		d.quiet()
	}
	if rng.Chance(1, 10) {
		d.callStop()
	}
	if rng.Chance(1, 10) {
		d.callCancel()
	}
	if rng.Chance(1, 4) {
		d.addSubAsync()
	}
	if rng.Chance(1, 8) {
		send(rng.Intn(3)) // a config sent before Run: received once the loop runs
	}
	d.callRun()
	d.quiet()
	d.l.poll(r)
	steps := rng.Intn(4)
	for i := 0; i < steps; i++ {
		switch k := rng.Intn(10); {
		case k < 3:
			send(rng.Intn(3))
			if rng.Chance(2, 3) {
				d.wg.Wait()
				settle()
			}
		case k < 5:
			p := ph.ParkOn(prng.Pick(rng, []string{"Received configuration update", "Pending actions calculated", "Processing config update"}))
			send(rng.Intn(3))
			if p.WaitReached(300 * time.Millisecond) {
				d.note("park")
				d.quiet()
				switch rng.Intn(4) {
				case 0:
					d.callStop()
				case 1:
					d.callCancel()
				default:
					d.addSub()
				}
				d.quiet()
				d.l.poll(r)
			}
			p.Release()
			settle()
		case k < 7:
			d.l.poll(r)
		case k < 8:
			d.addSub()
		case k < 9:
			d.addSubAsync()
		default:
			d.cancelSomeSub()
		}
	}
	d.quiet()
	d.rr.mu.Lock()
	ret := d.rr.returned
	d.rr.mu.Unlock()
	if !ret {
		if rng.Chance(2, 3) {
			d.callStop()
		} else {
			d.callCancel()
		}
	}
	waitCh(d.rr.done, 5*time.Second)
	d.finish(w, "cluster", id, refCancel, refDone)
}

var _ = fmt.Sprintf
