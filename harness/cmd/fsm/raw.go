package main

import (
	"bufio"
	"context"
	"fmt"
	"io"
	"log/slog"
	"runtime"
	"strings"
	"sync"
	"sync/atomic"
	"time"

	"github.com/robbyt/go-supervisor/internal/finitestate"
	"github.com/robbyt/go-supervisor/verif_harness/internal/prng"
)

type rawMachine struct{ *finitestate.Machine }

func (m rawMachine) IsRunning() bool { return m.GetState() == finitestate.StatusRunning }

// lifecycle-biased choice of a target state
func target(r *prng.R, cur string) string {
	next := map[string][]string{
		"New": {"Booting"}, "Booting": {"Running"}, "Running": {"Reloading", "Stopping"},
		"Reloading": {"Running"}, "Stopping": {"Stopped"}, "Stopped": {"New"}, "Error": {"Stopping", "Stopped", "Error"},
		"Unknown": {"Unknown"},
	}
	if r.Chance(6, 10) {
		return prng.Pick(r, next[cur])
	}
	if r.Chance(1, 3) {
		return "Error"
	}
	return stNames[r.Intn(len(stNames))]
}

// rawCase: a sequential program of machine calls by the main goroutine, with subscribers created
// and cancelled either in program order or concurrently from their own goroutines.
func rawCase(w *bufio.Writer, r *prng.R, id string) {
	h := slog.NewTextHandler(io.Discard, &slog.HandlerOptions{Level: slog.LevelError})
	fm, err := finitestate.NewTypicalFSM(h)
	if err != nil {
		panic(err)
	}
	m := rawMachine{fm}
	var okCount, beg atomic.Int64
	lower := func() int { return int(okCount.Load()) }
	upper := func() int {
		b, o := int(beg.Load()), int(okCount.Load())
		if o > b {
			return o
		}
		return b
	}
	var prog []string
	var subs []*subRec
	var smu sync.Mutex
	var wg sync.WaitGroup
	n := 4 + r.Intn(18)
	concurrent := r.Chance(1, 2)
	for i := 0; i < n; i++ {
		switch k := r.Intn(10); {
		case k < 5: // machine call
			cur := m.GetState()
			to := target(r, cur)
			beg.Store(okCount.Load() + 1)
			var e error
			var tok string
			switch r.Intn(5) {
			case 0:
				from := cur
				if r.Chance(1, 3) {
					from = stNames[r.Intn(len(stNames))]
				}
				e = m.TransitionIfCurrentState(from, to)
				tok = fmt.Sprintf("i%d%d", code(from), code(to))
			case 1:
				e = m.SetState(to)
				tok = fmt.Sprintf("s%d", code(to))
			default:
				e = m.Transition(to)
				tok = fmt.Sprintf("t%d", code(to))
			}
			if e == nil {
				okCount.Add(1)
				prog = append(prog, tok+"=1")
			} else {
				prog = append(prog, tok+"=0")
			}
			beg.Store(okCount.Load())
		case k < 7: // subscribe
			delay := 0
			if r.Chance(1, 4) {
				delay = 50 + r.Intn(400)
			}
			if concurrent && r.Chance(2, 3) {
				wait := r.Intn(300)
				wg.Add(1)
				go func() {
					defer wg.Done()
					time.Sleep(time.Duration(wait) * time.Microsecond)
					s := subscribe(m, lower, upper, delay)
					smu.Lock()
					subs = append(subs, s)
					smu.Unlock()
				}()
			} else {
				s := subscribe(m, lower, upper, delay)
				smu.Lock()
				subs = append(subs, s)
				smu.Unlock()
			}
		case k < 8: // cancel one
			smu.Lock()
			if len(subs) > 0 {
				s := subs[r.Intn(len(subs))]
				smu.Unlock()
				s.cancelNow(lower, upper)
				if r.Chance(1, 2) {
					s.wait(2 * time.Second)
					s.mu.Lock()
					s.uhi = upper()
					s.mu.Unlock()
				}
			} else {
				smu.Unlock()
			}
		case k < 9:
			prog = append(prog, fmt.Sprintf("g%d", code(m.GetState())))
			if m.IsRunning() {
				prog = append(prog, "r1")
			} else {
				prog = append(prog, "r0")
			}
		default:
			if concurrent {
				time.Sleep(time.Duration(r.Intn(200)) * time.Microsecond)
			}
		}
	}
	wg.Wait()
	// let the pipelines drain (received counts stable), then cancel everything and wait for the closes
	total := int(okCount.Load())
	stable, last := 0, -1
	for i := 0; i < 400 && stable < 4; i++ {
		sum := 0
		for _, s := range subs {
			s.mu.Lock()
			sum += len(s.got)
			s.mu.Unlock()
		}
		if sum == last {
			stable++
		} else {
			stable, last = 0, sum
		}
		time.Sleep(150 * time.Microsecond)
	}
	for _, s := range subs {
		s.cancelNow(lower, upper)
	}
	waitAll(subs, 1500*time.Millisecond)
	fmt.Fprintf(w, "RAW\t%s\t%s\t%s\n", id, strings.Join(prog, " "), joinSubs(subs, total))
}

// storm replays the shape of the recorded finding "stale replay": many goroutines subscribe
// while one goroutine walks the lifecycle cycle as fast as it can.  Each subscription is printed
// as a RAW-style case against the cycle history, so the model driver classifies it.
func storm(w *bufio.Writer, d time.Duration, maxOut int) {
	h := slog.NewTextHandler(io.Discard, &slog.HandlerOptions{Level: slog.LevelError})
	fm, err := finitestate.NewTypicalFSM(h)
	if err != nil {
		panic(err)
	}
	cycle := []string{"Booting", "Running", "Stopping", "Stopped", "New"}
	pred := map[string]string{"Booting": "New", "Running": "Booting", "Stopping": "Running", "Stopped": "Stopping", "New": "Stopped"}
	var stop atomic.Bool
	var wg sync.WaitGroup
	wg.Add(1)
	go func() {
		defer wg.Done()
		for i := 0; !stop.Load(); i++ {
			if err := fm.Transition(cycle[i%len(cycle)]); err != nil {
				panic(err)
			}
		}
	}()
	var total, dup, stale, other atomic.Int64
	var omu sync.Mutex
	var examples []string
	for k := 0; k < 4*runtime.NumCPU(); k++ {
		wg.Add(1)
		go func() {
			defer wg.Done()
			for !stop.Load() {
				ctx, cancel := context.WithCancel(context.Background())
				ch := fm.GetStateChan(ctx)
				var got []string
				to := time.After(200 * time.Millisecond)
			L:
				for len(got) < 4 {
					select {
					case s, ok := <-ch:
						if !ok {
							break L
						}
						got = append(got, s)
					case <-to:
						break L
					}
				}
				cancel()
				dl := time.After(time.Second)
			D:
				for {
					select {
					case _, ok := <-ch:
						if !ok {
							break D
						}
					case <-dl:
						other.Add(1)
						omu.Lock()
						examples = append(examples, "OTHER:not-closed-after-cancel")
						omu.Unlock()
						stop.Store(true)
						break D
					}
				}
				total.Add(1)
				if len(got) < 3 {
					continue
				}
				switch {
				case got[1] == got[0]:
					dup.Add(1)
				case pred[got[1]] == got[0]:
				case pred[got[0]] == got[1] && got[2] == got[0]:
					stale.Add(1)
					omu.Lock()
					if len(examples) < maxOut {
						examples = append(examples, strings.Join(got, ","))
					}
					omu.Unlock()
				default:
					other.Add(1)
					omu.Lock()
					examples = append(examples, "OTHER:"+strings.Join(got, ","))
					omu.Unlock()
				}
			}
		}()
	}
	time.Sleep(d)
	stop.Store(true)
	wg.Wait()
	fmt.Fprintf(w, "STORM\tsubs=%d dup=%d stale=%d other=%d\t%s\n", total.Load(), dup.Load(), stale.Load(), other.Load(),
		strings.Join(examples, ";"))
}

// slowSubCase is the witness of what lies OUTSIDE the hypothesis "the consumer keeps reading": a
// subscriber whose consumer does not read for longer than finitestate's forwardGrace (100 ms) after
// its context was cancelled loses the values that were still in flight (the repaired forwarder
// discards them rather than leak, /repo 85f0d8e).  Printed as a RAW case: the driver must explain
// the shortened stream with the model's slow-after-cancel classification (and nothing else).
func slowSubCase(w *bufio.Writer, r *prng.R, id string) {
	h := slog.NewTextHandler(io.Discard, &slog.HandlerOptions{Level: slog.LevelError})
	fm, err := finitestate.NewTypicalFSM(h)
	if err != nil {
		panic(err)
	}
	var prog []string
	n := 0
	tr := func(to string) {
		if e := fm.Transition(to); e == nil {
			n++
			prog = append(prog, fmt.Sprintf("t%d=1", code(to)))
		} else {
			prog = append(prog, fmt.Sprintf("t%d=0", code(to)))
		}
	}
	if r.Bool() {
		tr("Booting")
		if r.Bool() {
			tr("Running")
		}
	}
	sr := &subRec{done: make(chan struct{}), ulo: -1, uhi: -1, lo: n, hi: n}
	ctx, cf := context.WithCancel(context.Background())
	ch := fm.GetStateChan(ctx) // s0 sits in the wrapped channel; the consumer is not reading yet
	k := 1 + r.Intn(2)         // one value into the forwarder's hand, a second into the manager channel
	for i := 0; i < k; i++ {
		tr([]string{"Error", "Stopped"}[i]) // Error is allowed from every state, Stopped from Error
	}
	sr.cancel, sr.ulo, sr.uhi, sr.cancelAt = true, n, n, time.Now()
	cf()
	stall := 130
	if r.Chance(1, 3) {
		stall = 20 // inside the grace: nothing may be lost
	}
	time.Sleep(time.Duration(stall) * time.Millisecond)
	for v := range ch {
		sr.got = append(sr.got, code(v))
	}
	sr.closed, sr.closedAt = true, time.Now()
	close(sr.done)
	fmt.Fprintf(w, "RAW\t%s\t%s\t%s\n", id, strings.Join(prog, " "), joinSubs([]*subRec{sr}, n))
}

// slowLiveRaw: a subscriber of the bare machine whose consumer pauses 150-400 ms after every value
// (live subscription; the documented tolerance is the 5 s broadcast timeout): two or three changes are
// made within its first pause, further ones while it catches up; the subscription is cancelled only after
// it has drained.  Every change must arrive, in order.
func slowLiveRaw(w *bufio.Writer, r *prng.R, id string) {
	h := slog.NewTextHandler(io.Discard, &slog.HandlerOptions{Level: slog.LevelError})
	fm, err := finitestate.NewTypicalFSM(h)
	if err != nil {
		panic(err)
	}
	m := rawMachine{fm}
	var okCount atomic.Int64
	count := func() int { return int(okCount.Load()) }
	var prog []string
	walk := []string{"Booting", "Running", "Reloading", "Running", "Stopping", "Stopped", "New"}
	pos := 0
	tr := func() {
		to := walk[pos%len(walk)]
		if e := fm.Transition(to); e == nil {
			pos++
			okCount.Add(1)
			prog = append(prog, fmt.Sprintf("t%d=1", code(to)))
		} else {
			prog = append(prog, fmt.Sprintf("t%d=0", code(to)))
		}
	}
	for i := r.Intn(3); i > 0; i-- {
		tr()
	}
	sr := subscribe(m, count, count, slowPauseUS(r))
	time.Sleep(2 * time.Millisecond) // the consumer has taken s0 and is pausing
	for i := 2 + r.Intn(2); i > 0; i-- {
		tr() // pile up behind the pause (the third waits for room in the pipeline: below the pause)
	}
	if r.Bool() {
		time.Sleep(time.Duration(sr.delayUS/2) * time.Microsecond)
		tr()
	}
	sr.drainWait(8 * time.Second)
	sr.cancelNow(count, count)
	sr.wait(2 * time.Second)
	sr.mu.Lock()
	sr.uhi = count()
	sr.mu.Unlock()
	fmt.Fprintf(w, "RAW\t%s\t%s\t%s\n", id, strings.Join(prog, " "), joinSubs([]*subRec{sr}, count()))
}
