// fsm is the C08 correspondence harness: it drives the real finitestate.Machine and the three
// bundled runners through PRNG-generated histories and prints one line per case for the model
// driver (/verif/ocaml/fsm.ml).  See the line formats at the top of that file.
package main

import (
	"context"
	"fmt"
	"strings"
	"sync"
	"sync/atomic"
	"time"

	"github.com/robbyt/go-supervisor/verif_harness/internal/director"
	"github.com/robbyt/go-supervisor/verif_harness/internal/prng"
)

var stNames = []string{"New", "Booting", "Running", "Reloading", "Stopping", "Stopped", "Error", "Unknown"}

func code(s string) int {
	for i, n := range stNames {
		if n == s {
			return i
		}
	}
	return 9
}

// log is the event log of one case.  Every emitter takes pollMu, and a poll holds it across its
// load and its log entry: no other event can be logged between a poll's read and its entry, so the
// logged order is a linearisation the model can follow (state changes themselves are not logged:
// they are internal steps the model may place anywhere compatible with the log).
type log struct {
	rec      director.Recorder
	pollMu   sync.Mutex
	refCount atomic.Int64 // values received by the reference subscriber (incl. the initial one)
}

func (l *log) emit(format string, a ...any) {
	l.pollMu.Lock()
	l.rec.Emit(format, a...)
	l.pollMu.Unlock()
}

// changes seen by the reference subscriber so far (a lower bound of the true number)
func (l *log) changes() int {
	n := int(l.refCount.Load()) - 1
	if n < 0 {
		n = 0
	}
	return n
}

type stateable interface {
	GetState() string
	GetStateChan(ctx context.Context) <-chan string
	IsRunning() bool
}

// startRef subscribes the reference consumer (subscriber 0 of the model) and logs what it receives.
func (l *log) startRef(s stateable) (cancel func(), done chan struct{}) {
	ctx, cf := context.WithCancel(context.Background())
	ch := s.GetStateChan(ctx)
	done = make(chan struct{})
	go func() {
		defer close(done)
		for v := range ch {
			l.pollMu.Lock()
			l.rec.Emit("0,4,0,%d", code(v))
			l.refCount.Add(1)
			l.pollMu.Unlock()
		}
		l.emit("0,5,0")
	}()
	return func() { l.emit("0,3,0"); cf() }, done
}

func (l *log) poll(s stateable) {
	l.pollMu.Lock()
	v := s.GetState()
	l.rec.Emit("0,6,%d", code(v))
	l.pollMu.Unlock()
	l.pollMu.Lock()
	b := s.IsRunning()
	if b {
		l.rec.Emit("0,7,1")
	} else {
		l.rec.Emit("0,7,0")
	}
	l.pollMu.Unlock()
}

// subRec is one extra subscriber with its own consumer goroutine.
type subRec struct {
	mu             sync.Mutex
	lo, hi         int // bounds on the number of changes at registration / state read
	ulo, uhi       int // bounds on the number of changes at un-registration (-1: until the end)
	got            []int
	closed, cancel bool
	cf             context.CancelFunc
	done           chan struct{}
	// wall-clock facts about the consumer, for the hypothesis "the consumer keeps reading": when the
	// subscription was cancelled and when the consumer saw the close.  finitestate's forwarder gives a
	// value in flight up after forwardGrace (100 ms) without a reader once the context is cancelled, so a
	// close seen less than that after the cancel cannot have involved a discarded value.
	cancelAt, closedAt time.Time
	rcvAtCancel        int // values the consumer had received when the subscription was cancelled
	delayUS            int // the consumer's pause after every value it receives
}

// subscribe creates a subscriber; lower() / upper() bound the number of state changes "now".
func subscribe(s stateable, lower, upper func() int, delayUS int) *subRec {
	sr := &subRec{done: make(chan struct{}), ulo: -1, uhi: -1, delayUS: delayUS}
	ctx, cf := context.WithCancel(context.Background())
	sr.cf = cf
	sr.lo = lower()
	ch := s.GetStateChan(ctx)
	sr.hi = upper()
	go func() {
		defer close(sr.done)
		for v := range ch {
			sr.mu.Lock()
			sr.got = append(sr.got, code(v))
			sr.mu.Unlock()
			if delayUS > 0 {
				time.Sleep(time.Duration(delayUS) * time.Microsecond)
			}
		}
		sr.mu.Lock()
		sr.closed = true
		sr.closedAt = time.Now()
		sr.mu.Unlock()
	}()
	return sr
}

func (sr *subRec) cancelNow(lower, upper func() int) {
	sr.mu.Lock()
	if sr.cancel {
		sr.mu.Unlock()
		return
	}
	sr.cancel = true
	sr.ulo = lower()
	sr.cancelAt = time.Now()
	sr.rcvAtCancel = len(sr.got)
	sr.mu.Unlock()
	sr.cf()
}

// slowSub: the consumer of a LIVE subscription pauses this long after every value - far below the
// 5 s broadcast timeout, above finitestate's post-cancel grace (100 ms).  It keeps up: everything must arrive.
func slowPauseUS(r interface{ Intn(int) int }) int { return 150000 + r.Intn(250000) }

// drainWait waits until a slow consumer has stopped receiving (no new value for two of its pauses plus a
// margin), so that the subscription is cancelled only when nothing is in flight any more: whatever is
// missing then was lost while the subscription was live.
func (sr *subRec) drainWait(max time.Duration) {
	if sr.delayUS < 100000 {
		return
	}
	idle := 2*time.Duration(sr.delayUS)*time.Microsecond + 200*time.Millisecond
	deadline := time.Now().Add(max)
	last, since := -1, time.Now()
	for time.Now().Before(deadline) {
		sr.mu.Lock()
		n, closed := len(sr.got), sr.closed
		sr.mu.Unlock()
		if closed {
			return
		}
		if n != last {
			last, since = n, time.Now()
		} else if time.Since(since) > idle {
			return
		}
		time.Sleep(5 * time.Millisecond)
	}
}

// closedEarly reports whether the consumer saw the channel closed although the context is live.
func (sr *subRec) snapshotClosed() bool {
	sr.mu.Lock()
	defer sr.mu.Unlock()
	return sr.closed
}

func (sr *subRec) wait(d time.Duration) {
	if closeMissed.Load() {
		d = 20 * time.Millisecond
	}
	select {
	case <-sr.done:
	case <-time.After(d):
		closeMissed.Store(true)
	}
}

// waitAll waits for every subscriber's close with one shared deadline
func waitAll(subs []*subRec, d time.Duration) {
	if closeMissed.Load() {
		d = 20 * time.Millisecond // a close was already missed in this batch: do not wait long again
	}
	dl := time.After(d)
	for _, s := range subs {
		select {
		case <-s.done:
		case <-dl:
			closeMissed.Store(true)
			return
		}
	}
}

var closeMissed atomic.Bool

func (sr *subRec) String(uhi int) string {
	sr.mu.Lock()
	defer sr.mu.Unlock()
	var b strings.Builder
	for _, g := range sr.got {
		fmt.Fprintf(&b, "%d", g)
	}
	bi := func(x bool) int {
		if x {
			return 1
		}
		return 0
	}
	u := sr.uhi
	if u < 0 {
		u = uhi
	}
	// 8th field: milliseconds between the cancel and the consumer seeing the close (-1: not both)
	ms := int64(-1)
	if sr.closed && sr.cancel && !sr.cancelAt.IsZero() && !sr.closedAt.IsZero() {
		ms = sr.closedAt.Sub(sr.cancelAt).Milliseconds()
		if ms < 0 {
			ms = 0
		}
	}
	// 9th field: how many values the consumer had received when the subscription was cancelled
	return fmt.Sprintf("%d,%d,%d,%d,%d,%d,%s,%d,%d", sr.lo, sr.hi, sr.ulo, u, bi(sr.closed), bi(sr.cancel), b.String(), ms, sr.rcvAtCancel)
}

func joinSubs(subs []*subRec, uhi int) string {
	parts := make([]string, len(subs))
	for i, s := range subs {
		parts[i] = s.String(uhi)
	}
	return strings.Join(parts, ";")
}

// runResult is what the goroutine calling Run() records at the instant Run returns.
type runResult struct {
	mu       sync.Mutex
	returned bool
	nilErr   bool
	state    string
	done     chan struct{}
}

func (rr *runResult) String() string {
	rr.mu.Lock()
	defer rr.mu.Unlock()
	if !rr.returned {
		return "2\t9"
	}
	r := 0
	if rr.nilErr {
		r = 1
	}
	return fmt.Sprintf("%d\t%d", r, code(rr.state))
}

func waitCh(ch <-chan struct{}, d time.Duration) bool {
	select {
	case <-ch:
		return true
	case <-time.After(d):
		return false
	}
}

func pick(r *prng.R, n int) int { return r.Intn(n) }
