// Command c18fsm is the C18 (finitestate leg) correspondence harness: goroutine census of
// internal/finitestate subscriptions against the model census (coq/model/FsmGo.v).
//
//	-mode script -script "<ops>"   one scenario in this process (child): a sequential director drives one
//	                               finitestate.Machine; prints  T @ <tokens>
//	-mode batch  -family F -n N    generate scenarios, run each in a child process (the census is
//	                               process-wide), print  SCRIPT <name> <ops> / T <name> <tokens>
//	-mode soak   -ms D             real concurrency: subscriber workers (absent / stopping / slow /
//	                               draining consumers) cycle subscribe-cancel while one goroutine walks
//	                               the lifecycle; at every checkpoint everything is cancelled and the
//	                               goroutine dump must be empty; prints  SOAK k=v ...
//
// Script ops:  sub | op:<t|s><to> | op:i<from><to> | recv:<i> | drain:<i> | cancel:<i> | wait:<ms> | settle
// (after every op the director waits for quiescence and logs the goroutine dump; settle first pauses
// for longer than the forwarder's grace period, so that no timer of the library can be pending)
// Trace tokens: SUB (GetStateChan called)  RD:<i> (... returned, subscriber i)  OP:<op> (machine call
//   issued)  OR:<0|1> (returned, 1 = nil error)  RV:<i>,<state> (director received)  RC:<i> (saw the
//   channel closed)  CA:<i> (context cancelled)
//   G:<forwarders>,<cleanups>,<senders>,<unknown>  goroutine dump of an instant at which every goroutine
//   is blocked (possibly on a timer);  Q:<...> the same after a settle with no machine call in flight.
//
// All randomness comes from internal/prng seeded by -seed.
package main

import (
	"context"
	"flag"
	"fmt"
	"io"
	"log/slog"
	"os"
	"os/exec"
	"strconv"
	"strings"
	"sync"
	"time"

	"github.com/robbyt/go-supervisor/internal/finitestate"
	"github.com/robbyt/go-supervisor/verif_harness/internal/director"
	"github.com/robbyt/go-supervisor/verif_harness/internal/gstack"
	"github.com/robbyt/go-supervisor/verif_harness/internal/prng"
)

var (
	mode   = flag.String("mode", "batch", "script|batch|soak")
	script = flag.String("script", "", "scenario script")
	file   = flag.String("file", "", "batch: file with one script per line")
	nCases = flag.Int("n", 50, "batch: number of scenarios")
	seed   = flag.Uint64("seed", 1, "PRNG seed")
	family = flag.String("family", "cycles", "batch: cycles|burst|timeout|cycleslong|all")
	jobs   = flag.Int("jobs", 8, "batch: parallel child processes")
	ms     = flag.Int("ms", 2500, "soak: duration in milliseconds")
)

var stNames = []string{"New", "Booting", "Running", "Reloading", "Stopping", "Stopped", "Error", "Unknown"}

func code(s string) int {
	for i, n := range stNames {
		if n == s {
			return i
		}
	}
	return 9
}

const fsmPrefix = "github.com/robbyt/go-fsm/"

// longer than three grace periods of the repaired forwarder (finitestate.forwardGrace = 100 ms): at the
// cancel at most three values are in flight for a subscriber (forwarder's hand, manager channel, the
// sender of a broadcast in progress) and each waits one grace period before it is discarded
const settlePause = 400 * time.Millisecond

func isHarness(f string) bool {
	return strings.HasPrefix(f, director.HarnessPrefix) || strings.HasPrefix(f, "main.")
}

// classify: the goroutines a subscription / a broadcast starts, by the functions on their stacks.
func classify(g gstack.G) string {
	// by the function whose `go` statement started the goroutine (the name of the goroutine's own
	// entry function - a closure or, after a refactoring, a named function - does not matter)
	switch {
	case strings.HasSuffix(g.CreatedBy, "finitestate.(*Machine).getStateChanInternal"),
		g.Has("finitestate.(*Machine).getStateChanInternal.func1"):
		return "fwd"
	case strings.HasSuffix(g.CreatedBy, "broadcast.(*Manager).GetStateChan"),
		g.Has("broadcast.(*Manager).GetStateChan.func1"):
		return "cln"
	}
	if !isHarness(g.Entry()) {
		for _, f := range g.Frames {
			if strings.Contains(f, "broadcast.(*Manager).Broadcast.func") {
				return "snd"
			}
		}
	}
	lib := false
	for _, f := range append(append([]string(nil), g.Frames...), g.CreatedBy) {
		if isHarness(f) {
			continue
		}
		if strings.HasPrefix(f, director.ModulePrefix) || strings.HasPrefix(f, fsmPrefix) {
			lib = true
		}
	}
	if !lib || isHarness(g.Entry()) {
		return "" // harness goroutines inside a public call (Transition ...) are the director's own
	}
	return "unk"
}

type census struct {
	fwd, cln, snd, unk int
	desc               []string
}

func (c census) tok() string { return fmt.Sprintf("G:%d,%d,%d,%d", c.fwd, c.cln, c.snd, c.unk) }

func takeCensus() census {
	var c census
	for _, g := range gstack.All() {
		switch classify(g) {
		case "fwd":
			c.fwd++
		case "cln":
			c.cln++
		case "snd":
			c.snd++
		case "unk":
			c.unk++
			c.desc = append(c.desc, g.Describe())
		}
	}
	return c
}

func newMachine() *finitestate.Machine {
	h := slog.NewTextHandler(io.Discard, &slog.HandlerOptions{Level: slog.LevelError + 8})
	m, err := finitestate.NewTypicalFSM(h)
	if err != nil {
		panic(err)
	}
	return m
}

// ---------------------------------------------------------------- script child

type subT struct {
	ch        <-chan string
	cancel    context.CancelFunc
	closed    bool
	cancelled bool
}

func scriptChild(sc string) int {
	rec := &director.Recorder{}
	m := newMachine()
	var subs []*subT
	var unknown []string
	var opDone chan bool // non-nil while a machine call is in flight
	quiesce := func(d time.Duration) bool { return rec.WaitQuiescent(d) }
	reap := func(wait time.Duration) bool {
		if opDone == nil {
			return true
		}
		select {
		case ok := <-opDone:
			opDone = nil
			if ok {
				rec.Emit("OR:1")
			} else {
				rec.Emit("OR:0")
			}
			return true
		case <-time.After(wait):
			return false
		}
	}
	var snapTag = "G"
	snap := func() {
		deadline := time.Now().Add(1500 * time.Millisecond)
		for time.Now().Before(deadline) {
			reap(0)
			cnt := rec.QuiescentAt(time.Until(deadline))
			if cnt < 0 {
				break
			}
			if opDone != nil && len(opDone) > 0 {
				continue // the call has returned: log that first
			}
			c1 := takeCensus()
			if !rec.WaitQuiescentN(50*time.Millisecond, 2, 200*time.Microsecond) {
				continue
			}
			c2 := takeCensus()
			if c1.tok() != c2.tok() || (opDone != nil && len(opDone) > 0) {
				continue
			}
			if rec.EmitIfCount(cnt, "%s%s", snapTag, c2.tok()[1:]) {
				unknown = append(unknown, c2.desc...)
				return
			}
		}
		rec.Emit("GB")
	}
	recvOne := func(i int) bool {
		if i >= len(subs) || subs[i].closed {
			return false
		}
		quiesce(300 * time.Millisecond)
		select {
		case v, ok := <-subs[i].ch:
			if !ok {
				subs[i].closed = true
				rec.Emit("RC:%d", i)
				return false
			}
			rec.Emit("RV:%d,%d", i, code(v))
			return true
		default:
			return false
		}
	}
	// settle: pause for longer than the forwarder's grace (3 values x 100 ms), then dump; the dump is
	// tagged Q only if no machine call is in flight (its broadcast could be waiting for the 5 s timer)
	settle := func() {
		reap(0)
		time.Sleep(settlePause)
		reap(0)
		if opDone == nil {
			snapTag = "Q"
		}
		snap()
		snapTag = "G"
	}
	for _, a := range strings.Fields(sc) {
		switch {
		case a == "sub":
			ctx, cf := context.WithCancel(context.Background())
			rec.Emit("SUB")
			ch := m.GetStateChan(ctx)
			subs = append(subs, &subT{ch: ch, cancel: cf})
			rec.Emit("RD:%d", len(subs)-1)
			snap()
		case strings.HasPrefix(a, "op:"):
			if !reap(7 * time.Second) {
				rec.Emit("STUCK")
				goto out
			}
			o := a[3:]
			done := make(chan bool, 1)
			opDone = done
			rec.Emit("OP:%s", o)
			go func() {
				var err error
				switch o[0] {
				case 't':
					err = m.Transition(stNames[int(o[1]-'0')])
				case 's':
					err = m.SetState(stNames[int(o[1]-'0')])
				case 'i':
					err = m.TransitionIfCurrentState(stNames[int(o[1]-'0')], stNames[int(o[2]-'0')])
				}
				done <- err == nil
			}()
			snap()
		case strings.HasPrefix(a, "recv:"):
			i, _ := strconv.Atoi(a[5:])
			recvOne(i)
			snap()
		case strings.HasPrefix(a, "drain:"):
			i, _ := strconv.Atoi(a[6:])
			for k := 0; k < 8 && recvOne(i); k++ {
			}
			snap()
		case strings.HasPrefix(a, "cancel:"):
			i, _ := strconv.Atoi(a[7:])
			if i < len(subs) && !subs[i].cancelled {
				rec.Emit("CA:%d", i)
				subs[i].cancelled = true
				subs[i].cancel()
			}
			snap()
		case a == "snap":
			// every action already ends with a dump of the quiescent state it leads to
		case a == "settle":
			settle()
		case strings.HasPrefix(a, "wait:"):
			d, _ := strconv.Atoi(a[5:])
			time.Sleep(time.Duration(d) * time.Millisecond)
			snap()
		}
	}
out:
	// teardown: let a pending call finish (at most the 5 s broadcast timer), cancel everything, final dump
	reap(7 * time.Second)
	for i, s := range subs {
		if !s.cancelled {
			rec.Emit("CA:%d", i)
			s.cancelled = true
			s.cancel()
		}
	}
	quiesce(500 * time.Millisecond)
	snap()
	settle()
	fmt.Printf("T @ %s\n", strings.Join(rec.Events(), " "))
	if len(unknown) > 0 {
		fmt.Printf("UNKNOWN %s\n", strings.Join(unknown, " | "))
	}
	return 0
}

// ---------------------------------------------------------------- generation

// lifecycle-biased machine call; returns the op token, the state afterwards and whether the call
// succeeds (a successful call broadcasts, also when the state does not change: Error -> Error)
func genOp(r *prng.R, cur int) (string, int, bool) {
	next := map[int][]int{0: {1}, 1: {2}, 2: {3, 4}, 3: {2}, 4: {5}, 5: {0}, 6: {4, 5, 6}, 7: {7}}
	allowed := func(a, b int) bool {
		if b == 6 && a != 7 {
			return true
		}
		for _, x := range next[a] {
			if x == b {
				return true
			}
		}
		return false
	}
	switch x := r.Intn(20); {
	case x < 14:
		to := prng.Pick(r, next[cur])
		return fmt.Sprintf("t%d", to), to, true
	case x < 16:
		return "s6", 6, true // SetState(Error): always succeeds
	case x < 18:
		to := r.Intn(7)
		if allowed(cur, to) {
			return fmt.Sprintf("t%d", to), to, true
		}
		return fmt.Sprintf("t%d", to), cur, false // refused
	default:
		from := r.Intn(7)
		to := prng.Pick(r, next[cur])
		if from == cur {
			return fmt.Sprintf("i%d%d", from, to), to, true
		}
		return fmt.Sprintf("i%d%d", from, to), cur, false
	}
}

// genScript keeps the number of values in each registered subscriber's pipeline (wrapped channel,
// forwarder's hand, manager channel: 3 places) below the point where a broadcast would have to wait
// for its 5 s timer - except in the family "timeout", which does it once on purpose.
func genScript(r *prng.R, fam string) string {
	type gs struct {
		fill               int  // values in the pipeline
		open               bool // context live
		policy             int  // 0 absent, 1 reads k then stops, 2 slow (one read per op), 3 drains
		reads, k           int
		closedSeen, regist bool
	}
	var subs []*gs
	var acts []string
	cur := 0
	cycles := 5 + r.Intn(8)
	maxOpen := 1 + r.Intn(3)
	switch fam {
	case "cycleslong":
		cycles = 40 + r.Intn(40)
	case "burst":
		cycles = 3 + r.Intn(3)
		maxOpen = 2 + r.Intn(3)
	case "timeout":
		cycles = 2 + r.Intn(2)
	}
	nOpen := func() int {
		n := 0
		for _, s := range subs {
			if s.open {
				n++
			}
		}
		return n
	}
	consume := func(i int, n int) {
		s := subs[i]
		for ; n > 0 && s.fill > 0; n-- {
			acts = append(acts, fmt.Sprintf("recv:%d", i))
			s.fill--
			s.reads++
		}
	}
	safeToOp := func() bool {
		for _, s := range subs {
			if s.open && s.fill >= 3 {
				return false
			}
		}
		return true
	}
	doOp := func() {
		o, nx, ok := genOp(r, cur)
		acts = append(acts, "op:"+o)
		if ok {
			cur = nx
			for _, s := range subs {
				if s.open {
					s.fill++
				}
			}
		}
		// consumers act according to their policy
		for i, s := range subs {
			if !s.open {
				continue
			}
			switch s.policy {
			case 1:
				if s.reads < s.k {
					consume(i, 1)
				}
			case 2:
				if r.Chance(2, 3) {
					consume(i, 1)
				}
			case 3:
				consume(i, 3)
			}
		}
	}
	cancelSub := func(i int) {
		s := subs[i]
		if !s.open {
			return
		}
		acts = append(acts, fmt.Sprintf("cancel:%d", i))
		s.open = false
		if s.policy == 3 || (s.policy == 2 && r.Chance(1, 2)) {
			acts = append(acts, fmt.Sprintf("drain:%d", i)) // sees the close
		} else if s.fill >= 2 && r.Chance(1, 2) {
			// the consumer is behind: its forwarder holds a value and will linger for its grace period(s);
			// half of the time wait that out (otherwise the following dumps are taken inside the grace window)
			acts = append(acts, "settle")
		}
	}
	timeoutDone := false
	for c := 0; c < cycles; c++ {
		// subscribe (possibly several), run a burst, cancel some
		for nOpen() < maxOpen && (nOpen() == 0 || r.Chance(2, 3)) {
			acts = append(acts, "sub")
			pol := r.Intn(4)
			if fam == "timeout" {
				pol = 0 // absent consumers: the third change has to wait for the broadcast timer
			}
			subs = append(subs, &gs{fill: 1, open: true, policy: pol, k: 1 + r.Intn(3)})
		}
		burst := r.Intn(4)
		if fam == "burst" {
			burst = 3 + r.Intn(6)
		}
		if fam == "timeout" && !timeoutDone {
			burst = 3 + r.Intn(2)
		}
		for b := 0; b < burst; b++ {
			if !safeToOp() {
				if fam == "timeout" && !timeoutDone {
					// the broadcast blocks on a full manager channel: dump while it is blocked, cancel the
					// blocking subscriber while the manager mutex is held, dump again, then wait out the timer
					timeoutDone = true
					doOp()
					if r.Chance(1, 2) {
						// cancel the blocking subscribers: their forwarders discard after the grace and unblock the call
						for i, s := range subs {
							if s.open && s.fill >= 3 {
								acts = append(acts, fmt.Sprintf("cancel:%d", i))
								s.open = false
							}
						}
						acts = append(acts, "settle")
					} else {
						// leave them: the broadcast runs into its 5 s timer and drops the value for them
						acts = append(acts, "settle", "wait:5200", "settle")
						for _, s := range subs {
							if s.open && s.fill >= 3 {
								s.fill = 3
							}
						}
					}
					continue
				}
				// cancel the subscribers that are full (slow / absent consumers give up)
				for i, s := range subs {
					if s.open && s.fill >= 3 {
						cancelSub(i)
					}
				}
				continue
			}
			doOp()
		}
		// cancel one or all
		for i, s := range subs {
			if s.open && r.Chance(2, 3) {
				cancelSub(i)
			}
		}
		if fam != "cycleslong" && r.Chance(1, 6) || fam == "cycleslong" && r.Chance(1, 15) {
			acts = append(acts, "settle")
		}
	}
	return strings.Join(acts, " ")
}

func batch() {
	rng := prng.New(*seed)
	type job struct{ name, script string }
	var js []job
	if *file != "" {
		b, err := os.ReadFile(*file)
		if err != nil {
			fmt.Fprintln(os.Stderr, err)
			os.Exit(2)
		}
		for i, l := range strings.Split(string(b), "\n") {
			l = strings.TrimSpace(l)
			if l == "" || strings.HasPrefix(l, "#") {
				continue
			}
			js = append(js, job{fmt.Sprintf("corpus%d", i), l})
		}
	} else {
		fams := []string{*family}
		if *family == "all" {
			fams = []string{"cycles", "cycles", "burst", "cycles", "burst"}
		}
		for i := 0; i < *nCases; i++ {
			f := fams[i%len(fams)]
			js = append(js, job{fmt.Sprintf("%s-%d-%d", f, *seed, i), genScript(rng.Fork(), f)})
		}
	}
	self, _ := os.Executable()
	var mu sync.Mutex
	var wg sync.WaitGroup
	sem := make(chan struct{}, *jobs)
	for _, j := range js {
		wg.Add(1)
		sem <- struct{}{}
		go func(j job) {
			defer wg.Done()
			defer func() { <-sem }()
			ctx, cancel := context.WithTimeout(context.Background(), 60*time.Second)
			defer cancel()
			outb, err := exec.CommandContext(ctx, self, "-mode", "script", "-script", j.script).CombinedOutput()
			mu.Lock()
			defer mu.Unlock()
			fmt.Printf("SCRIPT %s %s\n", j.name, j.script)
			got := false
			for _, l := range strings.Split(string(outb), "\n") {
				switch {
				case strings.HasPrefix(l, "T @ "):
					fmt.Printf("T %s %s\n", j.name, l[4:])
					got = true
				case strings.HasPrefix(l, "UNKNOWN"):
					fmt.Printf("UNKNOWN %s %s\n", j.name, l[8:])
				}
			}
			if err != nil || !got {
				tail := string(outb)
				if len(tail) > 1500 {
					tail = tail[len(tail)-1500:]
				}
				fmt.Printf("CRASH %s err=%v out=%q\n", j.name, err, tail)
			}
		}(j)
	}
	wg.Wait()
}

func main() {
	flag.Parse()
	switch *mode {
	case "script":
		os.Exit(scriptChild(*script))
	case "batch":
		batch()
	case "soak":
		os.Exit(soak(time.Duration(*ms)*time.Millisecond, *seed))
	default:
		fmt.Fprintln(os.Stderr, "unknown mode")
		os.Exit(2)
	}
}
