package main

// soak: subscribe / cancel cycles with absent, stopping, slow and draining consumers under real
// concurrency while one goroutine walks the lifecycle in bursts.  The machine lives for the whole run;
// at every checkpoint the workers pause with every subscription cancelled, the process is left to
// quiesce and the goroutine dump must contain no forwarder, no cleanup goroutine and no sender.
// Output: SOAK subs=.. transitions=.. checkpoints=.. policy_absent=.. ...  and, for every checkpoint
// whose dump is not empty, LEAK checkpoint=<k> subs_so_far=<n> G:<f>,<c>,<s>,<u> <goroutines>.

import (
	"context"
	"fmt"
	"strings"
	"sync"
	"sync/atomic"
	"time"

	"github.com/robbyt/go-supervisor/verif_harness/internal/director"
	"github.com/robbyt/go-supervisor/verif_harness/internal/gstack"
	"github.com/robbyt/go-supervisor/verif_harness/internal/prng"
)

func soak(d time.Duration, seed uint64) int {
	m := newMachine()
	rec := &director.Recorder{}
	cycle := []string{"Booting", "Running", "Reloading", "Running", "Stopping", "Stopped", "New"}
	var transitions, started, nsubs, stalls atomic.Int64
	var policyCount [4]atomic.Int64
	var pause atomic.Bool
	var stop atomic.Bool
	var parked atomic.Int64
	var wg sync.WaitGroup
	const workers = 12

	// transitioner: bursts of 1-2 changes, then a gap that lets subscribers come and go
	wg.Add(1)
	go func() {
		defer wg.Done()
		r := prng.New(seed*7 + 1)
		pos := 0
		for !stop.Load() {
			if pause.Load() {
				parked.Add(1)
				for pause.Load() && !stop.Load() {
					time.Sleep(100 * time.Microsecond)
				}
				parked.Add(-1)
				continue
			}
			b := 1
			if r.Chance(1, 10) {
				b = 2 // a back-to-back pair can overflow an absent consumer's pipeline: the broadcast then waits 5 s
			}
			for ; b > 0; b-- {
				started.Add(1)
				tt := time.Now()
				if err := m.Transition(cycle[pos%len(cycle)]); err != nil {
					panic(err)
				}
				if time.Since(tt) > time.Second {
					stalls.Add(1)
				}
				pos++
				transitions.Add(1)
			}
			time.Sleep(time.Duration(3000+r.Intn(3000)) * time.Microsecond)
		}
	}()

	for w := 0; w < workers; w++ {
		wg.Add(1)
		go func(w int) {
			defer wg.Done()
			r := prng.New(seed*1000 + uint64(w))
			for !stop.Load() {
				if pause.Load() {
					parked.Add(1)
					for pause.Load() && !stop.Load() {
						time.Sleep(100 * time.Microsecond)
					}
					parked.Add(-1)
					continue
				}
				ctx, cancel := context.WithCancel(context.Background())
				ch := m.GetStateChan(ctx)
				nsubs.Add(1)
				policy := r.Intn(4)
				policyCount[policy].Add(1)
				t0 := started.Load()
				life := time.Duration(500+r.Intn(6000)) * time.Microsecond
				deadline := time.Now().Add(life)
				switch policy {
				case 0: // absent: never reads; gives up as soon as a change starts (a third value in its
					// pipeline would make the broadcast wait for its 5 s timer)
					for time.Now().Before(deadline) && started.Load()-t0 < 1 {
						time.Sleep(20 * time.Microsecond)
					}
				case 1: // reads k values, then stops reading
					k := 1 + r.Intn(2)
					for i := 0; i < k; i++ {
						select {
						case <-ch:
						case <-time.After(life):
						}
					}
					t1 := started.Load()
					for time.Now().Before(deadline) && started.Load()-t1 < 1 {
						time.Sleep(20 * time.Microsecond)
					}
				case 2: // slow reader
					for time.Now().Before(deadline) {
						select {
						case <-ch:
							time.Sleep(time.Duration(30+r.Intn(120)) * time.Microsecond)
						case <-time.After(50 * time.Microsecond):
						}
					}
				case 3: // drains, and after the cancel reads until the close
					for time.Now().Before(deadline) {
						select {
						case <-ch:
						case <-time.After(50 * time.Microsecond):
						}
					}
				}
				cancel()
				if policy == 3 {
					to := time.After(8 * time.Second)
				D:
					for {
						select {
						case _, ok := <-ch:
							if !ok {
								break D
							}
						case <-to:
							fmt.Println("NOTCLOSED policy=3: channel not closed 8 s after cancel")
							break D
						}
					}
				}
			}
		}(w)
	}

	leaks := 0
	checkpoint := func(k int, final bool) {
		pause.Store(true)
		for dl := time.Now().Add(10 * time.Second); !final && parked.Load() < workers+1 && time.Now().Before(dl); {
			time.Sleep(200 * time.Microsecond)
		}
		// everything is cancelled; a broadcast may still be waiting for its timer (5 s at most)
		var c census
		same := 0
		for dl := time.Now().Add(8 * time.Second); time.Now().Before(dl); {
			rec.WaitQuiescentN(200*time.Millisecond, 3, 300*time.Microsecond)
			c2 := takeCensus()
			if c2.tok() == c.tok() {
				same++
			} else {
				same = 0
			}
			c = c2
			if c.fwd+c.cln+c.snd+c.unk == 0 {
				break
			}
			// no sender is waiting for its timer and nothing moved for 0.5 s: what is left stays
			if c.snd == 0 && same >= 10 {
				break
			}
			time.Sleep(50 * time.Millisecond)
		}
		if c.fwd+c.cln+c.snd+c.unk != 0 {
			leaks++
			var ds []string
			for _, g := range gstack.All() {
				if k := classify(g); k != "" {
					ds = append(ds, k+":"+g.Describe())
				}
			}
			if len(ds) > 2 {
				ds = ds[:2]
			}
			fmt.Printf("LEAK checkpoint=%d subs_so_far=%d %s %s\n", k, nsubs.Load(), c.tok(), strings.Join(ds, " | "))
		}
		pause.Store(false)
	}
	n := int(d / (400 * time.Millisecond))
	if n < 2 {
		n = 2
	}
	for k := 0; k < n; k++ {
		time.Sleep(d / time.Duration(n))
		checkpoint(k, false)
	}
	stop.Store(true)
	wg.Wait()
	checkpoint(n, true)
	fmt.Printf("SOAK subs=%d transitions=%d stalls=%d checkpoints=%d leaks=%d policy_absent=%d policy_stops=%d policy_slow=%d policy_drains=%d\n",
		nsubs.Load(), transitions.Load(), stalls.Load(), n+1, leaks, policyCount[0].Load(), policyCount[1].Load(), policyCount[2].Load(), policyCount[3].Load())
	return 0
}
