package main

import (
	"context"
	"fmt"
	"net/http"
	"sync"
	"sync/atomic"
	"time"

	"github.com/robbyt/go-supervisor/verif_harness/internal/director"
)

func nil2xx(w http.ResponseWriter, _ *http.Request) { w.WriteHeader(http.StatusOK) }

// env is the scripted environment of one runner scenario: the event log and the oracles.
type env struct {
	rec   *director.Recorder
	logMu sync.Mutex // every emission goes through it, so that a read+emit can be made atomic

	mu         sync.Mutex
	behaviours []string // per factory call: r|n|e|x, optional suffix s = slow Stop
	calls      int      // factory calls so far
	nextInst   int      // instances are numbered at (successful) creation
	servers    []*mockServer
	releaseAll bool
	deadline   time.Duration // readiness deadline configured for the scenario

	unknownSeen []string // C18 census: goroutines no class accounts for (diagnosis)
}

func (e *env) emit(format string, args ...any) {
	e.logMu.Lock()
	e.rec.Emit(format, args...)
	e.logMu.Unlock()
}

// mockServer is a contract mock of an httpserver.Runner child.
type mockServer struct {
	env      *env
	inst     int
	id       string
	cfg      int
	ready    byte // 'r' ready, 'n' never ready, 'e' error state
	slowStop bool

	release  chan struct{} // closed by the director to let a slow Stop return
	relOnce  sync.Once
	stopped  chan struct{}
	stopOnce sync.Once
	blocked  atomic.Bool
	created  time.Time
	polls    atomic.Int32 // IsRunning calls
}

func (m *mockServer) String() string { return fmt.Sprintf("mock[%d]", m.inst) }

func (m *mockServer) Run(ctx context.Context) error {
	if m.env == nil {
		return nil
	}
	m.env.emit("RC:%d", m.inst)
	select {
	case <-ctx.Done():
	case <-m.stopped:
	}
	m.env.emit("RX:%d", m.inst) // Run returned (the mock's own action; not part of the model)
	return nil
}

func (m *mockServer) Stop() {
	if m.env == nil {
		return
	}
	if m.ready == 'r' && m.polls.Load() == 0 && time.Since(m.created) >= m.env.deadline {
		// a ready server that was never asked IsRunning() before the readiness deadline expired: the
		// process was stalled for longer than the deadline; the scenario's timing assumption is void
		m.env.emit("TIMING")
	}
	m.env.emit("SC:%d", m.inst)
	if m.slowStop {
		m.env.mu.Lock()
		rel := m.env.releaseAll
		m.env.mu.Unlock()
		if !rel {
			m.blocked.Store(true)
			<-m.release
			m.blocked.Store(false)
		}
	}
	m.stopOnce.Do(func() { close(m.stopped) })
	m.env.emit("ST:%d", m.inst)
}

func (m *mockServer) doRelease() { m.relOnce.Do(func() { close(m.release) }) }

func (m *mockServer) IsRunning() bool { m.polls.Add(1); return m.ready == 'r' }

func (m *mockServer) GetState() string {
	switch m.ready {
	case 'r':
		return "Running"
	case 'e':
		return "Error"
	}
	return "Booting"
}

func (m *mockServer) GetStateChan(ctx context.Context) <-chan string {
	ch := make(chan string)
	go func() { <-ctx.Done(); close(ch) }()
	return ch
}
