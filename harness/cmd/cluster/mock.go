package main

import (
	"context"
	"errors"
	"fmt"
	"net/http"
	"sync"
	"sync/atomic"
	"time"

	"github.com/robbyt/go-supervisor/verif_harness/internal/director"
)

func nil2xx(w http.ResponseWriter, _ *http.Request) { w.WriteHeader(http.StatusOK) }

// env is the scripted environment of one runner scenario: the event log and the oracles.
type env struct {
	rec   *director.Recorder
	logMu sync.Mutex // every emission goes through it, so that a read+emit can be made atomic

	mu         sync.Mutex
	behaviours []string // per factory call: r|n|e|x, optional suffix s = slow Stop
	calls      int      // factory calls so far
	nextInst   int      // instances are numbered at (successful) creation
	servers    []*mockServer
	releaseAll bool
	deadline   time.Duration // readiness deadline configured for the scenario

	unknownSeen []string // C18 census: goroutines no class accounts for (diagnosis)
}

func (e *env) emit(format string, args ...any) {
	e.logMu.Lock()
	e.rec.Emit(format, args...)
	e.logMu.Unlock()
}

// mockServer is a contract mock of an httpserver.Runner child.
//
// Contract (what the bundled httpserver.Runner does, and what ClusterGo.v assumes):
//   - Run returns only after Stop() was called or its context was cancelled - or by itself when the
//     director makes the server fail (exit);
//   - IsRunning() is true only while Run has been called, has not returned and the context the server
//     was given (factory context and Run context) is live;
//   - a server that sees its context cancelled before any Stop() call logs CX:<inst>.
type mockServer struct {
	env      *env
	inst     int
	id       string
	cfg      int
	ready    byte // 'r' ready, 'n' never ready, 'e' error state
	slowStop bool
	fctx     context.Context // the context the factory was given

	release  chan struct{} // closed by the director to let a slow Stop return
	relOnce  sync.Once
	stopped  chan struct{}
	stopOnce sync.Once
	exit     chan struct{} // closed by the director: the server gives up by itself
	exitOnce sync.Once
	blocked  atomic.Bool
	created  time.Time
	polls    atomic.Int32 // IsRunning calls

	// guarded by env.logMu (so that they change atomically with the token that reports them)
	runCtx     context.Context
	runCalled  bool
	returned   bool
	selfExited bool
	stopCalled bool
	sawReady   bool // IsRunning answered true at least once
	deadPolls  int  // IsRunning answered false because the context was cancelled or Run had returned
}

func (m *mockServer) String() string { return fmt.Sprintf("mock[%d]", m.inst) }

func (m *mockServer) Run(ctx context.Context) error {
	if m.env == nil {
		return nil
	}
	e := m.env
	e.logMu.Lock()
	m.runCtx, m.runCalled = ctx, true
	e.rec.Emit("RC:%d", m.inst)
	e.logMu.Unlock()
	self := false
	select {
	case <-ctx.Done():
		e.logMu.Lock()
		if !m.stopCalled {
			e.rec.Emit("CX:%d", m.inst) // context cancelled although nobody called Stop()
		}
		e.logMu.Unlock()
	case <-m.stopped:
	case <-m.exit:
		self = true
	}
	e.logMu.Lock()
	m.returned = true
	if self {
		m.selfExited = true
		e.rec.Emit("XS:%d", m.inst) // Run returned by itself
	} else {
		e.rec.Emit("RX:%d", m.inst) // Run returned
	}
	e.logMu.Unlock()
	if self {
		return errors.New("mock server failed by itself")
	}
	return nil
}

func (m *mockServer) Stop() {
	if m.env == nil {
		return
	}
	e := m.env
	e.logMu.Lock()
	if m.ready == 'r' && !m.sawReady && m.deadPolls == 0 && time.Since(m.created) >= e.deadline {
		// a ready server that was never SEEN ready although nothing was wrong with it (it was not asked
		// IsRunning() before the readiness deadline expired, or only before its goroutine had got as far
		// as calling Run): the process was stalled for longer than the deadline; the scenario's timing
		// assumption is void
		e.rec.Emit("TIMING")
	}
	m.stopCalled = true
	e.rec.Emit("SC:%d", m.inst)
	e.logMu.Unlock()
	if m.slowStop {
		e.mu.Lock()
		rel := e.releaseAll
		e.mu.Unlock()
		if !rel {
			m.blocked.Store(true)
			<-m.release
			m.blocked.Store(false)
		}
	}
	m.stopOnce.Do(func() { close(m.stopped) })
	e.emit("ST:%d", m.inst)
}

func (m *mockServer) doRelease() { m.relOnce.Do(func() { close(m.release) }) }

// doExit makes the server give up by itself; only for a server that has been seen ready, whose Run is
// still running and that nobody is stopping.  Reports whether the server qualified.
func (m *mockServer) doExit() bool {
	e := m.env
	e.logMu.Lock()
	ok := m.ready == 'r' && m.sawReady && m.runCalled && !m.returned && !m.stopCalled
	e.logMu.Unlock()
	if ok {
		m.exitOnce.Do(func() { close(m.exit) })
	}
	return ok
}

// alive: Run called, not returned, contexts live.  Caller holds env.logMu.
func (m *mockServer) aliveLocked() (alive bool, dead bool) {
	if (m.fctx != nil && m.fctx.Err() != nil) || (m.runCtx != nil && m.runCtx.Err() != nil) || m.returned {
		return false, true
	}
	return m.runCalled, false
}

func (m *mockServer) IsRunning() bool {
	m.polls.Add(1)
	if m.env == nil {
		return m.ready == 'r'
	}
	m.env.logMu.Lock()
	defer m.env.logMu.Unlock()
	alive, dead := m.aliveLocked()
	if dead {
		m.deadPolls++
	}
	if m.ready == 'r' && alive {
		m.sawReady = true
		return true
	}
	return false
}

func (m *mockServer) GetState() string {
	if m.env != nil {
		m.env.logMu.Lock()
		defer m.env.logMu.Unlock()
		switch {
		case m.selfExited:
			return "Error"
		case m.returned:
			return "Stopped"
		case !m.runCalled:
			if m.ready == 'e' {
				return "Error"
			}
			return "Booting"
		}
	}
	switch m.ready {
	case 'r':
		return "Running"
	case 'e':
		return "Error"
	}
	return "Booting"
}

func (m *mockServer) GetStateChan(ctx context.Context) <-chan string {
	ch := make(chan string)
	go func() { <-ctx.Done(); close(ch) }()
	return ch
}
