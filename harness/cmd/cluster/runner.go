package main

// Check B: the real httpcluster.Runner with mock servers injected through the verif shim, driven
// by a scripted director; the observable trace is printed for the model acceptor.
//
// Script (space separated):  d=<restart delay ms> dl=<readiness deadline ms> b=<b0,b1,...> <action>...
//   behaviours, one per factory call in call order (default r): r ready, n never ready,
//   e error state, x factory error; suffix s = Stop() blocks until released
//   actions: push:<cmap> | stop | cancel | close | release | settle | snap | peek | sleep:<ms> | exit:<n>
//   (exit:<n>: the n-th - modulo their number - of the servers that have been seen ready, are inside Run
//   and are not being stopped gives up by itself: its Run returns an error although nobody stopped it)
//
// Trace tokens: O:<cmap> offer on the siphon (emitted before the send), PD send completed,
//   SA/SR Stop() call/return, CA cancel, CL close(siphon), F:<xid>,<cfg>,<inst>,<beh> factory ok,
//   FE:<xid>,<cfg> factory error, RC/RX:<inst> Run call/return, SC/ST:<inst> Stop call/return,
//   CX:<inst> the server saw its context cancelled before any Stop() call, XS:<inst> the server's Run
//   returned by itself, N:<count> GetServerCount, S:<R|L|P|D|?> GetState, RR Run returned.
//   (NB is bookkeeping; the check strips it before the acceptor.  TIMING marks a run in which the
//   process stalled for longer than the readiness deadline: such a run is discarded.)

import (
	"context"
	"errors"
	"fmt"
	"log/slog"
	"os"
	"os/exec"
	"strconv"
	"strings"
	"sync"
	"time"

	"github.com/robbyt/go-supervisor/runnables/httpcluster"
	"github.com/robbyt/go-supervisor/runnables/httpserver"
	"github.com/robbyt/go-supervisor/verif_harness/internal/director"
	"github.com/robbyt/go-supervisor/verif_harness/internal/prng"
)

func parseCmap(s string) (ids []string, m map[string]int) {
	m = map[string]int{}
	if s == "." || s == "" {
		return
	}
	for _, e := range strings.Split(s, ";") {
		t := strings.Split(e, ",")
		id := unhx(t[0])
		ids = append(ids, id)
		if t[1] == "-" {
			m[id] = -1
		} else {
			m[id], _ = strconv.Atoi(t[1])
		}
	}
	return
}

func stateTok(s string) string {
	switch s {
	case "Running":
		return "R"
	case "Reloading":
		return "L"
	case "Stopping":
		return "P"
	case "Stopped":
		return "D"
	}
	return "?" + s
}

func runnerChild(script string) int {
	toks := strings.Fields(script)
	delayMs, deadlineMs := 0, 40
	e := &env{rec: &director.Recorder{}}
	var acts []string
	for _, t := range toks {
		switch {
		case strings.HasPrefix(t, "d="):
			delayMs, _ = strconv.Atoi(t[2:])
		case strings.HasPrefix(t, "dl="):
			deadlineMs, _ = strconv.Atoi(t[3:])
		case strings.HasPrefix(t, "b="):
			if t[2:] != "" {
				e.behaviours = strings.Split(t[2:], ",")
			}
		default:
			acts = append(acts, t)
		}
	}
	e.deadline = time.Duration(deadlineMs) * time.Millisecond
	factory := func(ctx context.Context, id string, cfg *httpserver.Config, _ slog.Handler) (httpcluster.VerifServerRunner, error) {
		e.mu.Lock()
		b := "r"
		if e.calls < len(e.behaviours) && e.behaviours[e.calls] != "" {
			b = e.behaviours[e.calls]
		}
		e.calls++
		if b[0] == 'x' {
			e.mu.Unlock()
			e.emit("FE:%s,%d", hx(id), cfgNum(cfg))
			return nil, errors.New("injected factory error")
		}
		m := &mockServer{env: e, inst: e.nextInst, id: id, cfg: cfgNum(cfg), ready: b[0],
			slowStop: strings.HasSuffix(b, "s") && len(b) > 1,
			release:  make(chan struct{}), stopped: make(chan struct{}), exit: make(chan struct{}),
			fctx: ctx, created: time.Now()}
		e.nextInst++
		e.servers = append(e.servers, m)
		e.mu.Unlock()
		e.emit("F:%s,%d,%d,%c", hx(id), m.cfg, m.inst, m.ready)
		return m, nil
	}
	siphon := make(chan map[string]*httpserver.Config)
	r, err := httpcluster.NewRunner(
		httpcluster.WithLogHandler(slog.NewTextHandler(discard{}, &slog.HandlerOptions{Level: slog.LevelError + 4})),
		httpcluster.WithCustomSiphonChannel(siphon),
		httpcluster.WithRunnerFactory(factory),
		httpcluster.WithRestartDelay(time.Duration(delayMs)*time.Millisecond),
		httpcluster.VerifWithDeadlineServerStart(time.Duration(deadlineMs)*time.Millisecond),
	)
	if err != nil {
		fmt.Println("SETUPFAIL", err)
		return 3
	}
	if d, dl := r.VerifTimings(); d != time.Duration(delayMs)*time.Millisecond || dl != time.Duration(deadlineMs)*time.Millisecond {
		fmt.Println("SETUPFAIL timings not applied")
		return 3
	}
	ctx, cancel := context.WithCancel(bg)
	defer cancel()
	runDone := make(chan struct{})
	go func() {
		_ = r.Run(ctx)
		e.emit("RR")
		close(runDone)
	}()
	// wait until the cluster is Running (the model starts there)
	for i := 0; i < 5000 && r.GetState() != "Running"; i++ {
		time.Sleep(200 * time.Microsecond)
	}
	if r.GetState() != "Running" {
		fmt.Println("SETUPFAIL never reached Running:", r.GetState())
		return 3
	}
	quiesce := func() { e.rec.WaitQuiescent(1500 * time.Millisecond) }
	quiesce()

	var pushDone chan struct{} // non-nil while a send is outstanding
	terminated, closed, returned := false, false, false
	pushSettled := func(wait time.Duration) bool {
		if pushDone == nil {
			return true
		}
		select {
		case <-pushDone:
			pushDone = nil
			return true
		case <-time.After(wait):
			return false
		}
	}
	releaseBlocked := func() {
		e.mu.Lock()
		ss := append([]*mockServer(nil), e.servers...)
		e.mu.Unlock()
		for _, m := range ss {
			if m.blocked.Load() {
				m.doRelease()
			}
		}
	}
	count := func(wait time.Duration) (int, bool) {
		// waiting for the round to finish: slow Stop()s are released as they block
		ch := make(chan int, 1)
		go func() { ch <- r.GetServerCount() }()
		deadline := time.After(wait)
		for {
			select {
			case c := <-ch:
				return c, true
			case <-deadline:
				return 0, false
			case <-time.After(2 * time.Millisecond):
				releaseBlocked()
			}
		}
	}
	peek := func() {
		e.logMu.Lock()
		e.rec.Emit("S:%s", stateTok(r.GetState()))
		e.logMu.Unlock()
	}
	snap := func() {
		// only when nothing can move: no send outstanding, and no shutdown trigger unless Run returned
		if !pushSettled(2*time.Second) || (terminated && !returned) {
			e.emit("NB")
			return
		}
		// after the send completed the loop is either inside processConfigUpdate (holding the lock
		// GetServerCount needs) or back in its select: wait until it is blocked in one of the two
		quiesce()
		for try := 0; try < 6; try++ {
			c0 := e.rec.Count()
			c, ok := count(2 * time.Second)
			if !ok {
				break
			}
			// the value is only used if no event was logged while the call was in flight
			e.logMu.Lock()
			if e.rec.Count() == c0 {
				e.rec.Emit("N:%d", c)
				e.rec.Emit("S:%s", stateTok(r.GetState()))
				e.logMu.Unlock()
				return
			}
			e.logMu.Unlock()
			quiesce()
		}
		e.emit("NB")
	}
	for _, a := range acts {
		switch {
		case strings.HasPrefix(a, "push:"):
			if closed || returned || !pushSettled(300*time.Millisecond) {
				continue
			}
			ids, m := parseCmap(a[5:])
			cm := toConfigMap(ids, m)
			done := make(chan struct{})
			pushDone = done
			e.emit("O:%s", dumpCmap(ids, m))
			go func() {
				select {
				case siphon <- cm:
					e.emit("PD")
					close(done)
				case <-runDone: // nobody will ever receive
				}
			}()
		case a == "stop":
			terminated = true
			e.emit("SA")
			go func() { r.Stop(); e.emit("SR") }()
		case a == "cancel":
			terminated = true
			e.emit("CA")
			cancel()
		case a == "close":
			if closed || !pushSettled(300*time.Millisecond) {
				continue
			}
			closed, terminated = true, true
			e.emit("CL")
			close(siphon)
		case a == "release":
			releaseBlocked()
		case a == "settle":
			if pushSettled(2 * time.Second) {
				quiesce()
				count(2 * time.Second)
			}
		case a == "snap":
			snap()
			if *census {
				e.censusSnap(500 * time.Millisecond)
			}
		case a == "gsnap":
			if *census {
				e.censusSnap(500 * time.Millisecond)
			}
		case a == "peek":
			peek()
		case strings.HasPrefix(a, "exit:"):
			// only at a point where the loop is idle (GetServerCount answers) and nothing is in flight
			n, _ := strconv.Atoi(a[5:])
			if terminated || !pushSettled(2*time.Second) {
				continue
			}
			quiesce()
			if _, ok := count(2 * time.Second); !ok {
				continue
			}
			e.mu.Lock()
			ss := append([]*mockServer(nil), e.servers...)
			e.mu.Unlock()
			var cands []*mockServer
			for _, m := range ss {
				e.logMu.Lock()
				ok := m.ready == 'r' && m.sawReady && m.runCalled && !m.returned && !m.stopCalled
				e.logMu.Unlock()
				if ok {
					cands = append(cands, m)
				}
			}
			if len(cands) > 0 {
				cands[n%len(cands)].doExit()
			}
		case strings.HasPrefix(a, "sleep:"):
			ms, _ := strconv.Atoi(a[6:])
			time.Sleep(time.Duration(ms) * time.Millisecond)
		}
		quiesce()
		select {
		case <-runDone:
			returned = true
		default:
		}
	}
	// teardown: release every slow stop, make sure a shutdown trigger was given, wait for Run
	e.mu.Lock()
	e.releaseAll = true
	e.mu.Unlock()
	releaseBlocked()
	if !terminated {
		terminated = true
		e.emit("SA")
		go func() { r.Stop(); e.emit("SR") }()
	}
	hang := false
	deadline := time.After(6 * time.Second)
wait:
	for {
		select {
		case <-runDone:
			returned = true
			break wait
		case <-deadline:
			hang = true
			break wait
		case <-time.After(2 * time.Millisecond):
			releaseBlocked()
		}
	}
	if !hang {
		quiesce()
		pushDone = nil
		snap()
		time.Sleep(2 * time.Millisecond)
		if *census {
			e.censusSnap(1500 * time.Millisecond)
		}
	}
	evs := e.rec.Events()
	d := 0
	if delayMs > 0 {
		d = 1
	}
	fmt.Printf("T %s %d %s\n", "@", d, strings.Join(evs, " "))
	if hang {
		fmt.Printf("HANG %s\n", director.CensusString(director.Census()))
	}
	if len(e.unknownSeen) > 0 {
		fmt.Printf("UNKNOWN %s\n", strings.Join(e.unknownSeen, " | "))
	}
	return 0
}

type discard struct{}

func (discard) Write(p []byte) (int, error) { return len(p), nil }

// ---------------------------------------------------------------- scenario generation

var hygPool = []string{"a", "b", "ab", "a:sto", "stop", "a:", ""}
var colPool = []string{"a", "a:stop", "a:stop:stop", ":stop", "b", "b:stop", ""}

func genCmap(r *prng.R, ids []string, ncfg int) string {
	var parts []string
	for _, id := range ids {
		switch o := r.Intn(ncfg + 2); {
		case o == 0: // absent
		case o == 1 && r.Chance(1, 2):
			parts = append(parts, hx(id)+",-")
		case o == 1:
		default:
			parts = append(parts, fmt.Sprintf("%s,%d", hx(id), o-2))
		}
	}
	if len(parts) == 0 {
		return "."
	}
	return strings.Join(parts, ";")
}

func genBehaviours(r *prng.R, n int, allowNever bool) string {
	var bs []string
	for i := 0; i < n; i++ {
		b := "r"
		switch x := r.Intn(20); {
		case x < 2:
			b = "x"
		case x < 4 && allowNever:
			b = "n"
		case x < 5:
			b = "e"
		}
		if b != "x" && r.Chance(1, 5) {
			b += "s"
		}
		bs = append(bs, b)
	}
	return strings.Join(bs, ",")
}

func genScript(r *prng.R, fam string) string {
	if fam == "census" || fam == "censuslong" {
		return genCensusScript(r, fam)
	}
	pool := hygPool
	if fam == "collision" || (fam == "mixed" && r.Chance(1, 4)) {
		pool = colPool
	}
	k := 2 + r.Intn(3)
	var ids []string
	seen := map[string]bool{}
	if fam == "collision" {
		base := prng.Pick(r, []string{"a", "b", "", "a:stop"})
		ids = []string{base, base + ":stop"}
		seen[ids[0]], seen[ids[1]] = true, true
	}
	for len(ids) < k {
		id := prng.Pick(r, pool)
		if !seen[id] {
			seen[id] = true
			ids = append(ids, id)
		}
	}
	delay := prng.Pick(r, []int{0, 0, 1, 3})
	deadline := 40
	switch fam {
	case "delay":
		delay = 60
	case "wait":
		deadline = 700
	}
	var acts []string
	npush := 1 + r.Intn(4)
	term := prng.Pick(r, []string{"stop", "cancel", "close", ""})
	termAt := r.Intn(npush + 1)
	if fam == "settled" || fam == "selfexit" || (fam == "mixed" && r.Chance(1, 2)) {
		termAt = npush
	}
	interject := func() {
		switch r.Intn(8) {
		case 0:
			acts = append(acts, "peek")
		case 1:
			acts = append(acts, "release")
		case 2:
			acts = append(acts, fmt.Sprintf("sleep:%d", 1+r.Intn(8)))
		case 3, 4:
			acts = append(acts, "release", "snap")
		case 5:
			acts = append(acts, "settle")
		}
	}
	terminated := false
	for i := 0; i < npush; i++ {
		if i == termAt && term != "" {
			acts = append(acts, term)
			terminated = true
			if term == "close" {
				break
			}
		}
		acts = append(acts, "push:"+genCmap(r, ids, 3))
		switch fam {
		case "settled", "collision":
			acts = append(acts, "release", "snap")
		case "selfexit":
			acts = append(acts, "release", "snap")
			if r.Chance(2, 3) {
				acts = append(acts, fmt.Sprintf("exit:%d", r.Intn(4)), "snap")
			}
		case "delay", "wait":
			if r.Chance(1, 2) {
				acts = append(acts, "peek")
			}
			if r.Chance(1, 3) {
				acts = append(acts, "release", "snap")
			}
		default:
			interject()
		}
	}
	if !terminated && term != "" {
		acts = append(acts, term)
	}
	if fam == "wait" && term != "cancel" {
		// a never-ready server with a long deadline is only affordable when cancelled
		acts = append(acts, "cancel")
	}
	return fmt.Sprintf("d=%d dl=%d b=%s %s", delay, deadline,
		genBehaviours(r, 4*npush, true), strings.Join(acts, " "))
}

// runnerBatch generates scenarios and runs each in a child process under a watchdog.
func runnerBatch() {
	rng := prng.New(*seed)
	type job struct {
		name, script string
	}
	var js []job
	if *file != "" {
		b, err := os.ReadFile(*file)
		if err != nil {
			fmt.Fprintln(os.Stderr, err)
			os.Exit(2)
		}
		for i, l := range strings.Split(string(b), "\n") {
			l = strings.TrimSpace(l)
			if l == "" || strings.HasPrefix(l, "#") {
				continue
			}
			js = append(js, job{fmt.Sprintf("corpus%d", i), l})
		}
	} else {
		fams := []string{*family}
		if *family == "all" {
			fams = []string{"mixed", "mixed", "mixed", "settled", "settled", "collision", "delay", "wait", "selfexit"}
		}
		for i := 0; i < *nCases; i++ {
			f := fams[i%len(fams)]
			js = append(js, job{fmt.Sprintf("%s-%d-%d", f, *seed, i), genScript(rng.Fork(), f)})
		}
	}
	self, _ := os.Executable()
	var mu sync.Mutex
	var wg sync.WaitGroup
	sem := make(chan struct{}, *jobs)
	for _, j := range js {
		wg.Add(1)
		sem <- struct{}{}
		go func(j job) {
			defer wg.Done()
			defer func() { <-sem }()
			ctx, cancel := context.WithTimeout(bg, 25*time.Second)
			defer cancel()
			args := []string{"-mode", "runner", "-script", j.script}
			if *census {
				args = append(args, "-census")
			}
			cmd := exec.CommandContext(ctx, self, args...)
			outb, err := cmd.CombinedOutput()
			mu.Lock()
			defer mu.Unlock()
			fmt.Printf("SCRIPT %s %s\n", j.name, j.script)
			got := false
			for _, l := range strings.Split(string(outb), "\n") {
				switch {
				case strings.HasPrefix(l, "T @ "):
					fmt.Printf("T %s %s\n", j.name, l[4:])
					got = true
				case strings.HasPrefix(l, "HANG"):
					fmt.Printf("HANG %s %s\n", j.name, l[4:])
				case strings.HasPrefix(l, "UNKNOWN"):
					fmt.Printf("UNKNOWN %s %s\n", j.name, l[8:])
				case strings.HasPrefix(l, "SETUPFAIL"):
					fmt.Printf("SETUPFAIL %s %s\n", j.name, l)
				}
			}
			if err != nil || !got {
				tail := string(outb)
				if len(tail) > 1500 {
					tail = tail[len(tail)-1500:]
				}
				fmt.Printf("CRASH %s err=%v out=%q\n", j.name, err, tail)
			}
		}(j)
	}
	wg.Wait()
}
