package main

// C18 (cluster leg): the real goroutine census of a runner scenario, taken from runtime.Stack at
// quiescent points and logged as the trace token
//
//	G:<main>,<helpers>,<servers>,<api>,<unknown>
//
// main     goroutines inside (*Runner).Run
// helpers  stopServers' `go func(id, entry)` goroutines
// servers  createAndStartServer's `go func(id, runner, ctx)` goroutines (the mock's Run is on their stack)
// api      harness goroutines blocked inside a public call (Stop, GetServerCount): not created by the library
// unknown  any other goroutine that has a go-supervisor (non-harness) or go-fsm frame, or was created
//          by such a function: nothing in the model accounts for it
//
// Only emitted with -census (the C16 check does not use it).

import (
	"fmt"
	"strings"
	"time"

	"github.com/robbyt/go-supervisor/verif_harness/internal/director"
	"github.com/robbyt/go-supervisor/verif_harness/internal/gstack"
	"github.com/robbyt/go-supervisor/verif_harness/internal/prng"
)

const fsmPrefix = "github.com/robbyt/go-fsm/"

func classifyCluster(g gstack.G) string {
	// by the function whose `go` statement started the goroutine (the name of the goroutine's own
	// entry function - a closure or, after a refactoring, a method - does not matter)
	switch {
	case strings.HasSuffix(g.CreatedBy, "httpcluster.(*Runner).createAndStartServer"),
		g.Has("httpcluster.(*Runner).createAndStartServer.func1"):
		return "servers"
	case strings.HasSuffix(g.CreatedBy, "httpcluster.(*Runner).stopServers"),
		g.Has("httpcluster.(*Runner).stopServers.func1"):
		return "helpers"
	case g.Has("httpcluster.(*Runner).Run"):
		return "main"
	}
	isHarness := func(f string) bool { return strings.HasPrefix(f, director.HarnessPrefix) || strings.HasPrefix(f, "main.") }
	lib := false
	for _, f := range append(append([]string(nil), g.Frames...), g.CreatedBy) {
		if isHarness(f) {
			continue
		}
		if strings.HasPrefix(f, director.ModulePrefix) || strings.HasPrefix(f, fsmPrefix) {
			lib = true
		}
	}
	if !lib {
		return ""
	}
	// a goroutine started by the harness that is inside a public method of the Runner
	if isHarness(g.Entry()) && isHarness(g.CreatedBy) {
		return "api"
	}
	return "unknown"
}

type censusT struct {
	main, helpers, servers, api, unknown int
	unknownDesc                         []string
}

func (c censusT) tok() string {
	return fmt.Sprintf("G:%d,%d,%d,%d,%d", c.main, c.helpers, c.servers, c.api, c.unknown)
}

func takeCensus() censusT {
	var c censusT
	for _, g := range gstack.All() {
		switch classifyCluster(g) {
		case "main":
			c.main++
		case "helpers":
			c.helpers++
		case "servers":
			c.servers++
		case "api":
			c.api++
		case "unknown":
			c.unknown++
			c.unknownDesc = append(c.unknownDesc, g.Describe())
		}
	}
	return c
}

// censusSnap logs the census of a quiescent instant: the same census before and after a quiescence
// check with no event logged in between.  Returns false if no such instant was found.
func (e *env) censusSnap(maxWait time.Duration) bool {
	deadline := time.Now().Add(maxWait)
	for time.Now().Before(deadline) {
		cnt := e.rec.QuiescentAt(time.Until(deadline))
		if cnt < 0 {
			break
		}
		c1 := takeCensus()
		if !e.rec.WaitQuiescentN(50*time.Millisecond, 2, 200*time.Microsecond) {
			continue
		}
		c2 := takeCensus()
		if c1.tok() != c2.tok() {
			continue
		}
		e.logMu.Lock()
		ok := e.rec.EmitIfCount(cnt, "%s", c2.tok())
		e.logMu.Unlock()
		if ok {
			if c2.unknown > 0 {
				e.unknownSeen = append(e.unknownSeen, c2.unknownDesc...)
			}
			return true
		}
	}
	e.emit("GB") // no quiescent instant found (bookkeeping, ignored by the driver)
	return false
}

// genCensusScript: histories aimed at goroutine accumulation - bursts of config updates over a
// small id pool with the configuration of the same id changing again and again (restarts), many
// failed creations and never-ready / error-state servers, slow stops left blocked across a census
// (gsnap needs no GetServerCount, so it also works in the middle of a round), then Stop / cancel /
// close.  "censuslong" makes the history 4-6 times longer (the bound must not move).
func genCensusScript(r *prng.R, fam string) string {
	ids := []string{"a", "b", "c"}[:1+r.Intn(3)]
	npush := 3 + r.Intn(6)
	if fam == "censuslong" {
		npush = 20 + r.Intn(20)
	}
	delay := prng.Pick(r, []int{0, 0, 1, 2})
	var acts []string
	cfgOf := map[string]int{}
	for i := 0; i < npush; i++ {
		var parts []string
		for _, id := range ids {
			switch x := r.Intn(10); {
			case x < 1: // absent: removed
			case x < 7: // changed: restart of the same id
				cfgOf[id] = (cfgOf[id] + 1 + r.Intn(2)) % 4
				parts = append(parts, fmt.Sprintf("%s,%d", hx(id), cfgOf[id]))
			default: // unchanged
				parts = append(parts, fmt.Sprintf("%s,%d", hx(id), cfgOf[id]))
			}
		}
		cm := "."
		if len(parts) > 0 {
			cm = strings.Join(parts, ";")
		}
		acts = append(acts, "push:"+cm)
		switch r.Intn(6) {
		case 0:
			acts = append(acts, "gsnap") // possibly mid-round, slow stops still blocked
		case 1:
			acts = append(acts, "gsnap", "release", "snap")
		case 2, 3:
			acts = append(acts, "release", "snap")
		case 4:
			acts = append(acts, "release", "settle", "gsnap")
		}
	}
	acts = append(acts, "release", "snap")
	term := prng.Pick(r, []string{"stop", "cancel", "close", "stop", "cancel"})
	acts = append(acts, term)
	if r.Chance(1, 2) {
		acts = append(acts, "gsnap") // shutdown with slow stops still blocked
	}
	var bs []string
	for i := 0; i < 4*npush; i++ {
		b := "r"
		switch x := r.Intn(20); {
		case x < 4:
			b = "x"
		case x < 6:
			b = "n"
		case x < 8:
			b = "e"
		}
		if b != "x" && r.Chance(1, 4) {
			b += "s"
		}
		bs = append(bs, b)
	}
	return fmt.Sprintf("d=%d dl=%d b=%s %s", delay, 25, strings.Join(bs, ","), strings.Join(acts, " "))
}
