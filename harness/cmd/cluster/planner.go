package main

// Check A: differential test of the entries planner through the verif export shim.
//
// Output, one line per operation performed on the real code (tab separated):
//
//	op  arg  input-dump  desired-dump  output-dump
//
// dumps: entries "xKEY,xID,cfg,rt,act" joined by ';' ("." = empty map, "nil" = Go nil result);
// desired maps for op "new": "xID,cfg|-" joined by ';'.  The model driver (ocaml/cluster.ml)
// recomputes every operation from its input dump.

import (
	"bufio"
	"context"
	"fmt"
	"os"
	"sort"
	"strings"

	"github.com/robbyt/go-supervisor/runnables/httpcluster"
	"github.com/robbyt/go-supervisor/verif_harness/internal/prng"
)

var out = bufio.NewWriterSize(os.Stdout, 1<<20)

func emit(op, arg, in, des, res string) {
	fmt.Fprintf(out, "%s\t%s\t%s\t%s\t%s\n", op, arg, in, des, res)
}

var exhPool = []string{"a", "a:stop", "a:stop:stop", ":stop", "b"}

var randPool = []string{
	"a", "a:stop", "a:stop:stop", ":stop", "b", "", "ab", "b:stop", "a:sto", "stop", "a:stop:", "a:stopx",
	":stop:stop", "b:stop:stop", "a:", "a:stop:stop:stop",
}

// current-entry options: -1 absent, otherwise 2*cfg + (1 if running)
// desired options: -1 nil/absent, otherwise the cfg number

func collides(ids []string) bool {
	set := map[string]bool{}
	for _, i := range ids {
		set[i] = true
	}
	for _, i := range ids {
		if set[i+":stop"] {
			return true
		}
	}
	return false
}

// buildCur constructs a committed collection through the real API; trace=true emits every step.
func buildCur(ids []string, opt map[string]int, trace bool) *httpcluster.VerifEntries {
	var present []string
	cm := map[string]int{}
	for _, id := range ids {
		if o, ok := opt[id]; ok && o >= 0 {
			cm[id] = o / 2
			present = append(present, id)
		}
	}
	v := httpcluster.VerifNewEntries(toConfigMap(present, cm))
	if trace {
		emit("new", "-", dumpCmap(present, cm), "-", dumpEntries(v))
	}
	for idx, id := range ids {
		if o, ok := opt[id]; ok && o >= 0 && o%2 == 1 {
			ctx, cancel := context.WithCancel(bg)
			in := dumpEntries(v)
			nv := v.SetRuntime(id, &mockServer{inst: idx}, ctx, cancel)
			if trace {
				emit("setrt", fmt.Sprintf("%s,%d", hx(id), idx), in, "-", dumpEntries(nv))
			}
			if nv != nil {
				v = nv
			}
		}
	}
	in := dumpEntries(v)
	c := v.Commit()
	if trace {
		emit("commit", "-", in, "-", dumpEntries(c))
	}
	return c
}

func desiredOf(ids []string, opt map[string]int, withNil bool) (present []string, cm map[string]int) {
	cm = map[string]int{}
	for _, id := range ids {
		o, ok := opt[id]
		switch {
		case ok && o >= 0:
			cm[id] = o
			present = append(present, id)
		case withNil:
			cm[id] = -1
			present = append(present, id)
		}
	}
	return
}

// oneBuild runs newEntries + buildPendingEntries for (cur, desired), repeated on colliding inputs so
// that several Go map iteration orders are seen; emits each distinct result once.  Returns the
// last pending collection.
func oneBuild(ids []string, curOpt, desOpt map[string]int, withNil, trace bool) *httpcluster.VerifEntries {
	present, cm := desiredOf(ids, desOpt, withNil)
	reps := 1
	if collides(ids) {
		reps = *repeat
	}
	seen := map[string]bool{}
	var last *httpcluster.VerifEntries
	for r := 0; r < reps; r++ {
		cur := buildCur(ids, curOpt, trace && r == 0)
		des := httpcluster.VerifNewEntries(toConfigMap(present, cm))
		if trace && r == 0 {
			emit("new", "-", dumpCmap(present, cm), "-", dumpEntries(des))
		}
		p := cur.BuildPending(des)
		d := dumpEntries(p)
		if !seen[d] {
			seen[d] = true
			emit("build", "-", dumpEntries(cur), dumpEntries(des), d)
		}
		last = p
	}
	return last
}

// execute simulates executeActions + commit on a pending collection with the planner operations
// only (no servers): clearRuntime for every stop, setRuntime or removeEntry for every start.
func execute(p *httpcluster.VerifEntries, nextInst *int, rng *prng.R) *httpcluster.VerifEntries {
	toStart, toStop := p.PendingActions()
	sort.Strings(toStart)
	sort.Strings(toStop)
	hs := func(xs []string) string {
		ys := make([]string, len(xs))
		for i, x := range xs {
			ys[i] = hx(x)
		}
		return strings.Join(ys, ",")
	}
	emit("actions", "-", dumpEntries(p), "-", "start:"+hs(toStart)+"|stop:"+hs(toStop))
	cur := p
	for _, k := range toStop {
		in := dumpEntries(cur)
		nv := cur.ClearRuntime(k)
		emit("clrrt", hx(k), in, "-", dumpEntries(nv))
		if nv != nil {
			cur = nv
		}
	}
	cutShort := rng != nil && rng.Chance(1, 10) // context cancelled during the restart delay
	if !cutShort {
		for _, k := range toStart {
			in := dumpEntries(cur)
			if rng != nil && rng.Chance(1, 5) {
				nv := cur.RemoveEntry(k)
				emit("remove", hx(k), in, "-", dumpEntries(nv))
				cur = nv
				continue
			}
			ctx, cancel := context.WithCancel(bg)
			inst := *nextInst
			*nextInst++
			nv := cur.SetRuntime(k, &mockServer{inst: inst}, ctx, cancel)
			emit("setrt", fmt.Sprintf("%s,%d", hx(k), inst), in, "-", dumpEntries(nv))
			if nv != nil {
				cur = nv
			}
		}
	}
	in := dumpEntries(cur)
	c := cur.Commit()
	emit("commit", "-", in, "-", dumpEntries(c))
	emit("count", "-", dumpEntries(c), "-", fmt.Sprint(c.Count()))
	return c
}

func plannerExhaustive() {
	defer out.Flush()
	ids := exhPool[:*poolN]
	n := len(ids)
	nc, nd := 1, 1
	for i := 0; i < n; i++ {
		nc *= 4
		nd *= 3
	}
	idx := 0
	for c := 0; c < nc; c++ {
		curOpt := map[string]int{}
		x := c
		for _, id := range ids {
			curOpt[id] = []int{-1, 1, 3, 0}[x%4]
			x /= 4
		}
		for d := 0; d < nd; d++ {
			idx++
			if idx%*shards != *shard {
				continue
			}
			desOpt := map[string]int{}
			y := d
			for _, id := range ids {
				desOpt[id] = y%3 - 1
				y /= 3
			}
			trace := idx%97 == 0
			p := oneBuild(ids, curOpt, desOpt, idx%2 == 0, trace)
			if idx%13 == 0 {
				next := 100
				execute(p, &next, nil)
			}
		}
	}
}

func plannerRandom() {
	defer out.Flush()
	rng := prng.New(*seed)
	for c := 0; c < *nCases; c++ {
		r := rng.Fork()
		// a pool of 2..5 ids, biased towards colliding families
		k := 2 + r.Intn(4)
		var ids []string
		seen := map[string]bool{}
		for len(ids) < k {
			var id string
			if len(ids) > 0 && r.Chance(1, 2) {
				id = prng.Pick(r, ids) + ":stop"
			} else {
				id = prng.Pick(r, randPool)
			}
			if !seen[id] {
				seen[id] = true
				ids = append(ids, id)
			}
		}
		// a sequence of maps pushed from the empty cluster, each executed to completion
		cur := httpcluster.VerifEmptyEntries()
		next := 0
		steps := 1 + r.Intn(5)
		for s := 0; s < steps; s++ {
			desOpt := map[string]int{}
			for _, id := range ids {
				desOpt[id] = r.Intn(4) - 1
			}
			present, cm := desiredOf(ids, desOpt, r.Bool())
			des := httpcluster.VerifNewEntries(toConfigMap(present, cm))
			emit("new", "-", dumpCmap(present, cm), "-", dumpEntries(des))
			reps := 1
			if collides(ids) {
				reps = 3
			}
			var p *httpcluster.VerifEntries
			seenOut := map[string]bool{}
			for i := 0; i < reps; i++ {
				p = cur.BuildPending(des)
				d := dumpEntries(p)
				if !seenOut[d] {
					seenOut[d] = true
					emit("build", "-", dumpEntries(cur), dumpEntries(des), d)
				}
			}
			cur = execute(p, &next, r)
			// operations on keys that may or may not exist
			if r.Chance(1, 3) {
				key := prng.Pick(r, randPool)
				in := dumpEntries(cur)
				switch r.Intn(3) {
				case 0:
					emit("clrrt", hx(key), in, "-", dumpEntries(cur.ClearRuntime(key)))
				case 1:
					ctx, cancel := context.WithCancel(bg)
					emit("setrt", fmt.Sprintf("%s,%d", hx(key), 999), in, "-",
						dumpEntries(cur.SetRuntime(key, &mockServer{inst: 999}, ctx, cancel)))
					cancel()
				case 2:
					emit("remove", hx(key), in, "-", dumpEntries(cur.RemoveEntry(key)))
				}
			}
		}
		// shutdown's plan: everything removed
		des := httpcluster.VerifNewEntries(nil)
		emit("build", "-", dumpEntries(cur), dumpEntries(des), dumpEntries(cur.BuildPending(des)))
	}
}

// corpus lines:  xID=r<cfg>|i<cfg>,...|xID=<cfg>|-,...   (current: running / not running with
// configuration number cfg; desired: configuration number or - for a nil config)
func plannerCorpus() {
	defer out.Flush()
	f, err := os.Open(*file)
	if err != nil {
		fmt.Fprintln(os.Stderr, err)
		os.Exit(2)
	}
	defer f.Close()
	sc := bufio.NewScanner(f)
	for sc.Scan() {
		line := strings.TrimSpace(sc.Text())
		if line == "" || strings.HasPrefix(line, "#") {
			continue
		}
		parts := strings.Split(line, "|")
		if len(parts) != 2 {
			fmt.Fprintln(os.Stderr, "bad corpus line:", line)
			os.Exit(2)
		}
		var ids []string
		seen := map[string]bool{}
		parse := func(s string) map[string]int {
			m := map[string]int{}
			for _, kv := range strings.Split(s, ",") {
				if kv == "" {
					continue
				}
				t := strings.SplitN(kv, "=", 2)
				id := unhx(t[0])
				var o int
				switch {
				case t[1] == "-":
					o = -1
				case t[1][0] == 'r':
					fmt.Sscanf(t[1][1:], "%d", &o)
					o = 2*o + 1
				case t[1][0] == 'i':
					fmt.Sscanf(t[1][1:], "%d", &o)
					o = 2 * o
				default:
					fmt.Sscanf(t[1], "%d", &o)
				}
				m[id] = o
				if !seen[id] {
					seen[id] = true
					ids = append(ids, id)
				}
			}
			return m
		}
		curOpt := parse(parts[0])
		desOpt := parse(parts[1])
		old := *repeat
		*repeat = 40
		p := oneBuild(ids, curOpt, desOpt, true, true)
		*repeat = old
		next := 100
		execute(p, &next, nil)
	}
}
