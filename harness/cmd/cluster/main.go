// Command cluster is the C16 correspondence harness (httpcluster).
//
//	-mode planner-exh|planner-rand|planner-corpus   check A: the entries planner through the verif
//	                                                export shim; one line per operation on stdout
//	-mode runner -script <s>                        check B: one scenario in this process (child)
//	-mode runner-batch ...                          check B: generate scenarios, run each in a child
//	                                                process under a watchdog, print their traces
//
// All randomness comes from internal/prng seeded by -seed.
package main

import (
	"context"
	"encoding/hex"
	"flag"
	"fmt"
	"os"
	"strconv"
	"strings"
	"time"

	"github.com/robbyt/go-supervisor/runnables/httpcluster"
	"github.com/robbyt/go-supervisor/runnables/httpserver"
)

var (
	mode    = flag.String("mode", "planner-rand", "planner-exh|planner-rand|planner-corpus|runner|runner-batch")
	seed    = flag.Uint64("seed", 1, "PRNG seed")
	nCases  = flag.Int("n", 1000, "number of random cases / scenarios")
	shard   = flag.Int("shard", 0, "shard index")
	shards  = flag.Int("shards", 1, "number of shards")
	file    = flag.String("file", "", "corpus file")
	script  = flag.String("script", "", "runner scenario script")
	poolN   = flag.Int("pool", 5, "exhaustive planner: number of pool ids used (<=5)")
	repeat  = flag.Int("repeat", 6, "planner: BuildPending repetitions on colliding inputs")
	jobs    = flag.Int("jobs", 8, "runner-batch: parallel child processes")
	family  = flag.String("family", "mixed", "runner-batch: scenario family")
	verbose = flag.Bool("v", false, "verbose")
	census  = flag.Bool("census", false, "runner: log the goroutine census (G: tokens) at quiescent points (C18 cluster leg)")
)

// ---------------------------------------------------------------- configs

func hx(s string) string { return "x" + hex.EncodeToString([]byte(s)) }

func unhx(s string) string {
	b, err := hex.DecodeString(strings.TrimPrefix(s, "x"))
	if err != nil {
		panic("bad hex " + s)
	}
	return string(b)
}

var theRoute = func() httpserver.Routes {
	r, err := httpserver.NewRouteFromHandlerFunc("verif", "/", nil2xx)
	if err != nil {
		panic(err)
	}
	return httpserver.Routes{*r}
}()

// mkConfig builds a FRESH *httpserver.Config for the abstract configuration number n: two
// calls with the same n give distinct pointers that are Config.Equal; different n differ in
// ListenAddr (n/2) and/or DrainTimeout (n%2).
func mkConfig(n int) *httpserver.Config {
	c, err := httpserver.NewConfig(fmt.Sprintf("127.0.0.1:%d", 18000+n/2), theRoute)
	if err != nil {
		panic(err)
	}
	c.DrainTimeout = time.Duration(1+n%2) * time.Second
	return c
}

// cfgNum recovers the abstract number (-1 for nil).
func cfgNum(c *httpserver.Config) int {
	if c == nil {
		return -1
	}
	i := strings.LastIndex(c.ListenAddr, ":")
	p, err := strconv.Atoi(c.ListenAddr[i+1:])
	if err != nil {
		return -2
	}
	return 2*(p-18000) + int(c.DrainTimeout/time.Second) - 1
}

// ---------------------------------------------------------------- dumps

func dumpEntries(v *httpcluster.VerifEntries) string {
	if v == nil {
		return "nil"
	}
	d := v.Dump()
	if len(d) == 0 {
		return "."
	}
	var sb strings.Builder
	for i, e := range d {
		if i > 0 {
			sb.WriteByte(';')
		}
		rt := "-"
		if e.Runner != nil {
			if m, ok := e.Runner.(*mockServer); ok {
				rt = strconv.Itoa(m.inst)
			} else {
				rt = "?"
			}
			if !e.HasCtx || !e.HasCancel {
				rt += "!" // runner without ctx/cancel: not a runtime the model knows
			}
		} else if e.HasCtx || e.HasCancel {
			rt = "-!"
		}
		act := map[string]string{"none": "n", "start": "s", "stop": "x"}[e.Action]
		if act == "" {
			act = "?"
		}
		fmt.Fprintf(&sb, "%s,%s,%d,%s,%s", hx(e.Key), hx(e.ID), cfgNum(e.Config), rt, act)
	}
	return sb.String()
}

func dumpCmap(ids []string, m map[string]int) string {
	// m[id] = cfg number, -1 = nil config; ids gives the order
	if len(ids) == 0 {
		return "."
	}
	var sb strings.Builder
	for i, id := range ids {
		if i > 0 {
			sb.WriteByte(';')
		}
		if m[id] < 0 {
			fmt.Fprintf(&sb, "%s,-", hx(id))
		} else {
			fmt.Fprintf(&sb, "%s,%d", hx(id), m[id])
		}
	}
	return sb.String()
}

func toConfigMap(ids []string, m map[string]int) map[string]*httpserver.Config {
	out := make(map[string]*httpserver.Config, len(ids))
	for _, id := range ids {
		if m[id] < 0 {
			out[id] = nil
		} else {
			out[id] = mkConfig(m[id])
		}
	}
	return out
}

func main() {
	flag.Parse()
	switch *mode {
	case "planner-exh":
		plannerExhaustive()
	case "planner-rand":
		plannerRandom()
	case "planner-corpus":
		plannerCorpus()
	case "runner":
		os.Exit(runnerChild(*script))
	case "runner-batch":
		runnerBatch()
	default:
		fmt.Fprintln(os.Stderr, "unknown mode")
		os.Exit(2)
	}
}

var bg = context.Background()
