// sup drives the real supervisor.PIDZero against contract mocks under an adaptive, seeded
// director and prints one event log per scenario for the model acceptor (ocaml/sup.ml).
//
//	sup -n 200 -seed 1 -family mixed            parent: runs scenarios in child processes
//	sup -child -seed 123 -family mixed          child: one scenario, log on stdout
package main

import (
	"bufio"
	"bytes"
	"context"
	"errors"
	"flag"
	"fmt"
	"os"
	"os/exec"
	"sort"
	"strings"
	"sync"
	"syscall"
	"time"

	"github.com/robbyt/go-supervisor/supervisor"
	"github.com/robbyt/go-supervisor/verif_harness/internal/director"
	"github.com/robbyt/go-supervisor/verif_harness/internal/prng"
	"github.com/robbyt/go-supervisor/verif_harness/internal/supmock"
)

var stateNames = []string{"New", "Booting", "Running", "Reloading", "Stopping", "Stopped", "Error"}

func stateCode(s string) int {
	for i, n := range stateNames {
		if n == s {
			return i
		}
	}
	return 99
}

type spec struct {
	stateable, reloadable, rsender, ssender bool
	stopBlocks                              bool
	exit                                    string // "sig" | "free" | "never"
	heldRun, heldStop, heldReload, heldSub  bool
	heldPoll                                bool
	errOnStop                               bool
	neverReady                              bool
}

type subSt struct {
	ch     <-chan supervisor.StateMap
	cancel context.CancelFunc
	closed bool
	gone   bool
}

type scn struct {
	r        *prng.R
	seed     uint64
	family   string
	specs    []spec
	cores    []*supmock.Core
	rec      *director.Recorder
	ph       *director.ParkHandler
	sup      *supervisor.PIDZero
	pcancel  func()
	startupShort, shutdownShort bool
	suInitial, suTimeout        time.Duration // overrides of the start-up timer settings (0 = default)

	mu       sync.Mutex
	nextK    int
	pending  map[int]string // API callers not yet returned
	subs     map[int]*subSt
	nextSub  int
	errs     map[int]error // error id -> value
	nextErr  int
	runDone  chan struct{}
	runRes   string
	shutdownTriggered bool
	parentCancelled   bool
	readySet []bool
	stopReleased, runReleased []bool
	out      *bufio.Writer
}

// envCtx is the parent context of the supervisor: the director ends it either like a cancel() or
// like an expired deadline (Err() = DeadlineExceeded).
type envCtx struct {
	done chan struct{}
	mu   sync.Mutex
	err  error
}

func (e *envCtx) Deadline() (time.Time, bool) { return time.Time{}, false }
func (e *envCtx) Done() <-chan struct{}       { return e.done }
func (e *envCtx) Value(any) any               { return nil }
func (e *envCtx) Err() error {
	e.mu.Lock()
	defer e.mu.Unlock()
	return e.err
}
func (e *envCtx) end(err error) {
	e.mu.Lock()
	if e.err == nil {
		e.err = err
		close(e.done)
	}
	e.mu.Unlock()
}

// timeoutErr looks like a network timeout (Timeout() == true) and is NOT a context error: a real failure.
type timeoutErr struct{ msg string }

func (t timeoutErr) Error() string   { return t.msg }
func (t timeoutErr) Timeout() bool   { return true }
func (t timeoutErr) Temporary() bool { return true }

type customErr struct{ inner error }

func (c customErr) Error() string { return "custom(" + c.inner.Error() + ")" }
func (c customErr) Unwrap() error { return c.inner }

// mkErr builds an error value of a random shape; cancel says whether errors.Is must see a
// cancellation in it.
func (s *scn) mkErr(cancel bool) supmock.RunResult {
	s.nextErr++
	id := s.nextErr
	var e error
	leaf := fmt.Errorf("user-error-%d", id)
	if cancel {
		base := context.Canceled
		if s.r.Bool() {
			base = context.DeadlineExceeded
		}
		switch s.r.Intn(6) {
		case 0:
			e = base
		case 1:
			e = fmt.Errorf("wrapped %d: %w", id, base)
		case 2:
			e = errors.Join(leaf, base)
		case 3:
			e = customErr{fmt.Errorf("deep: %w", base)}
		case 4:
			e = fmt.Errorf("a %w b %w", leaf, base)
		default:
			e = fmt.Errorf("l2: %w", errors.Join(customErr{base}, leaf))
		}
	} else {
		switch s.r.Intn(7) {
		case 5:
			e = timeoutErr{fmt.Sprintf("i/o timeout %d", id)} // errors.As(.., Timeout()) is no cancellation
		case 6:
			e = fmt.Errorf("dial %d: %w", id, timeoutErr{"i/o timeout"})
		case 0:
			e = leaf
		case 1:
			e = fmt.Errorf("wrapped: %w", leaf)
		case 2:
			e = errors.Join(leaf, errors.New("other"))
		case 3:
			e = customErr{leaf}
		default:
			e = fmt.Errorf("context canceled (text only) %d", id) // looks like, but is not, a cancellation
		}
	}
	s.mu.Lock()
	s.errs[id] = e
	s.mu.Unlock()
	return supmock.RunResult{Err: e, ID: id, Cancel: cancel}
}

// mkErrInit is mkErr(false) usable while the scenario is still being built.
func (s *scn) mkErrInit(i int) supmock.RunResult {
	if s.errs == nil {
		s.errs = map[int]error{}
	}
	return s.mkErr(false)
}

func b2i(b bool) int {
	if b {
		return 1
	}
	return 0
}

func (s *scn) genSpecs() {
	n := 1 + s.r.Intn(4)
	if s.family == "big" {
		n = 3 + s.r.Intn(3)
	}
	s.specs = make([]spec, n)
	for i := range s.specs {
		sp := &s.specs[i]
		sp.stateable = s.r.Chance(1, 2)
		sp.reloadable = s.r.Chance(1, 2)
		sp.rsender = s.r.Chance(1, 4)
		sp.ssender = s.r.Chance(1, 4)
		sp.stopBlocks = s.r.Chance(1, 2)
		switch s.r.Intn(6) {
		case 0:
			sp.exit = "free"
		default:
			sp.exit = "sig"
		}
		sp.heldRun = s.r.Chance(1, 3)
		sp.heldStop = s.r.Chance(1, 4)
		sp.heldReload = sp.reloadable && s.r.Chance(1, 3)
		sp.heldSub = sp.stateable && s.r.Chance(1, 4)
		sp.heldPoll = sp.stateable && s.r.Chance(1, 4)
	}
	switch s.family {
	case "startup":
		// a gate that may fail: never-ready runnable with a short startup timeout, or an early failure
		i := s.r.Intn(n)
		s.specs[i].stateable = true
		if s.r.Bool() {
			s.specs[i].neverReady = true
			s.startupShort = true
		}
		j := s.r.Intn(n)
		s.specs[j].exit = "free"
	case "timeout":
		s.shutdownShort = true
		i := s.r.Intn(n)
		s.specs[i].exit = "never"
		s.specs[i].heldRun = true
		s.specs[i].stopBlocks = false
	case "state":
		for i := range s.specs {
			s.specs[i].stateable = true
		}
	case "reload":
		s.specs[s.r.Intn(n)].reloadable = true
		for i := range s.specs {
			if s.r.Bool() {
				s.specs[i].rsender = true
			}
		}
	case "sdsender":
		s.specs[s.r.Intn(n)].ssender = true
	case "errs":
		// several runnables return a real error while they are being stopped
		s.specs = make([]spec, 2+s.r.Intn(3))
		for i := range s.specs {
			s.specs[i] = spec{exit: "free", stopBlocks: s.r.Bool(), errOnStop: true, stateable: s.r.Chance(1, 4)}
		}
	case "earlyshutdown":
		// Shutdown() from another goroutine after Run() was entered and before anything is launched
		s.specs = make([]spec, 1+s.r.Intn(3))
		for i := range s.specs {
			s.specs[i] = spec{exit: "sig", stopBlocks: true, stateable: s.r.Chance(1, 3)}
		}
	case "latesub":
		// the runnable changes state before the monitor can subscribe, then returns to the recorded state
		s.specs = make([]spec, 1+s.r.Intn(2))
		for i := range s.specs {
			s.specs[i] = spec{exit: "sig", stopBlocks: s.r.Bool()}
		}
		s.specs[0].stateable = true
		s.specs[0].heldSub = true
	case "subentry":
		// a subscriber arrives before a later Stateable runnable is started (witness of C06_subscriber_refuted)
		s.specs = make([]spec, 2)
		for i := range s.specs {
			s.specs[i] = spec{exit: "sig", stopBlocks: s.r.Bool(), stateable: true}
		}
	case "subclose":
		// a subscriber's context ends while a broadcast is in progress
		s.specs = make([]spec, 1+s.r.Intn(2))
		for i := range s.specs {
			s.specs[i] = spec{exit: "sig", stopBlocks: s.r.Bool()}
		}
		s.specs[0].stateable = true
	case "slowstop":
		// the Stop() phase of the shutdown lasts longer than the configured shutdown timeout
		s.shutdownShort = true
		s.specs = make([]spec, 2+s.r.Intn(2))
		for i := range s.specs {
			s.specs[i] = spec{exit: "sig"}
		}
		k := 1 + s.r.Intn(len(s.specs)-1) // not the first: runnables before it are still to be stopped
		s.specs[k].heldStop = true
		if s.r.Bool() {
			s.specs[0].exit = "never"
			s.specs[0].heldRun = true
		}
	case "shutdownfirst":
		// Shutdown() is called BEFORE Run(): every registered runnable is stopped although no Run is invoked;
		// both Stop styles (a lifecycle-style Stop then blocks forever: known finding of C02)
		s.specs = make([]spec, 1+s.r.Intn(3))
		for i := range s.specs {
			s.specs[i] = spec{exit: "sig", stopBlocks: s.r.Chance(1, 3), stateable: s.r.Chance(1, 3),
				reloadable: s.r.Chance(1, 3), heldStop: s.r.Chance(1, 4)}
		}
		s.shutdownShort = s.r.Bool()
	case "neverreturn":
		// a runnable whose Run never returns, with either Stop style (a lifecycle-style Stop then blocks
		// forever, before the shutdown timer is even armed: known finding of C02)
		s.shutdownShort = true
		s.specs = make([]spec, 1+s.r.Intn(3))
		for i := range s.specs {
			s.specs[i] = spec{exit: "sig", stopBlocks: s.r.Bool()}
		}
		k := s.r.Intn(len(s.specs))
		s.specs[k].exit = "never"
		s.specs[k].heldRun = true
		s.specs[k].stopBlocks = s.r.Bool()
	case "fullsub":
		// two subscribers: one never reads (its channel fills up: 10 snapshots), the other keeps up; every later
		// snapshot must still reach the one that keeps up
		s.specs = make([]spec, 1+s.r.Intn(2))
		for i := range s.specs {
			s.specs[i] = spec{exit: "sig", stopBlocks: s.r.Bool()}
		}
		s.specs[0].stateable = true
	case "slowstring":
		// two Stateable runnables with subscribed monitors and a listening subscriber; a String() call of runnable 1
		// is slow while runnable 0's change is being broadcast, and runnable 1 changes state meanwhile: the
		// subscriber must end up with the newest map (broadcasts are atomic with their snapshot)
		s.specs = make([]spec, 2+s.r.Intn(2))
		for i := range s.specs {
			s.specs[i] = spec{exit: "sig", stopBlocks: s.r.Bool()}
		}
		s.specs[0].stateable = true
		s.specs[1].stateable = true
	case "hupburst":
		// a burst of reload requests (SIGHUPs, ReloadAll calls, triggers) while a pass is inside a held Reload():
		// every one of them must get a pass of its own once the manager is free again
		s.specs = make([]spec, 1+s.r.Intn(3))
		for i := range s.specs {
			s.specs[i] = spec{exit: "sig", stopBlocks: s.r.Bool(), reloadable: s.r.Bool(), rsender: s.r.Chance(1, 2)}
		}
		k := s.r.Intn(len(s.specs))
		s.specs[k].reloadable = true
		s.specs[k].heldReload = true
	case "shorttimers":
		// EVERY configurable timer is short (start-up timeout 60 ms, shutdown timeout 120 ms) while a Reload() call
		// is held for longer: those timers do not govern a reload pass, nothing may change (passes never overlap)
		s.startupShort, s.shutdownShort = true, true
		s.specs = make([]spec, 1+s.r.Intn(3))
		for i := range s.specs {
			s.specs[i] = spec{exit: "sig", stopBlocks: s.r.Bool(), reloadable: s.r.Bool(), rsender: s.r.Chance(1, 3)}
		}
		k := s.r.Intn(len(s.specs))
		s.specs[k].reloadable = true
		s.specs[k].heldReload = true
	case "gatetimed":
		// the start-up deadline in real time: a gating runnable that is never ready, or ready only well after the
		// deadline; start-up timeout 300 ms, initial delay 37 ms (doubling back-off: polls at 37, 111, 259, 555 ms)
		s.startupShort = true
		s.suInitial, s.suTimeout = 37*time.Millisecond, 300*time.Millisecond
		s.specs = make([]spec, 2+s.r.Intn(2))
		for i := range s.specs {
			s.specs[i] = spec{exit: "sig", stopBlocks: s.r.Bool()}
		}
		s.specs[0].stateable = true
		s.specs[0].neverReady = s.r.Bool()
	case "timeoutfinal":
		// the shutdown gives up at its timeout (a runnable never returns); a Stateable runnable whose monitor never
		// obtained its state channel left its initial state before it was stopped: after Run() returned the map must
		// still report the state it had when its Stop() returned
		s.shutdownShort = true
		s.specs = make([]spec, 2+s.r.Intn(2))
		for i := range s.specs {
			s.specs[i] = spec{exit: "sig", stopBlocks: false}
		}
		s.specs[0].stateable = true
		s.specs[0].heldSub = true
		k := 1 + s.r.Intn(len(s.specs)-1)
		s.specs[k].exit = "never"
		s.specs[k].heldRun = true
	case "lateerr":
		// a runnable ignores Stop and cancellation until after the shutdown timeout has ended the wait and Run() /
		// Shutdown() have returned; THEN its Run returns a real error ("nothing a runnable does afterwards can
		// panic the process")
		s.shutdownShort = true
		s.specs = make([]spec, 1+s.r.Intn(3))
		for i := range s.specs {
			s.specs[i] = spec{exit: "sig", stopBlocks: false, stateable: s.r.Chance(1, 3)}
		}
		for k := 0; k < 1+s.r.Intn(2); k++ {
			j := s.r.Intn(len(s.specs))
			s.specs[j].exit = "free"
			s.specs[j].heldRun = true
		}
	case "finalstate":
		// a state monitor that lags behind its runnable when shutdown stores the final state
		s.specs = make([]spec, 1+s.r.Intn(2))
		for i := range s.specs {
			s.specs[i] = spec{exit: "sig", stopBlocks: s.r.Bool()}
		}
		s.specs[0].stateable = true
	case "gatefail", "gatecancel":
		// an earlier runnable fails while the supervisor is inside IsRunning() of a later gate
		s.specs = make([]spec, 3+s.r.Intn(2))
		for i := range s.specs {
			s.specs[i] = spec{exit: "sig", stopBlocks: s.r.Bool()}
		}
		s.specs[0].exit = "free"
		s.specs[0].heldRun = true
		s.specs[1].stateable = true
		s.specs[1].heldPoll = true
		if s.r.Bool() {
			s.specs[2].stateable = true
		}
	}
	for i := range s.specs {
		if s.specs[i].exit == "never" {
			s.specs[i].heldRun = true
		}
	}
}

func (s *scn) header(id uint64) {
	var caps []string
	for _, sp := range s.specs {
		ex := map[string]string{"sig": "s", "free": "f", "never": "n"}[sp.exit]
		caps = append(caps, fmt.Sprintf("%d%d%d%d%d%s%d", b2i(sp.stateable), b2i(sp.reloadable), b2i(sp.rsender),
			b2i(sp.ssender), b2i(sp.stopBlocks), ex, b2i(sp.heldSub)))
	}
	fmt.Fprintf(s.out, "SCN %d family=%s n=%d caps=%s su=%d sd=%d\n", id, s.family, len(s.specs),
		strings.Join(caps, ","), b2i(s.startupShort), b2i(s.shutdownShort))
}

func (s *scn) build() error {
	s.rec = &director.Recorder{}
	s.ph = &director.ParkHandler{}
	// Run() logs "Listening for signals" right after it has set p.runEntered: the record is evidence of that
	// program point (if the message is reworded the evidence is simply missing: less is pinned, nothing alarms)
	s.ph.Rec = s.rec
	s.ph.Notify("Listening for signals", "Entered")
	var rs []supervisor.Runnable
	for i, sp := range s.specs {
		c := supmock.NewCore(i, s.rec)
		c.Stateable, c.Reloadable, c.RSender, c.SSender = sp.stateable, sp.reloadable, sp.rsender, sp.ssender
		c.StopBlocks, c.HeldRun, c.HeldStop, c.HeldReload, c.HeldSub = sp.stopBlocks, sp.heldRun, sp.heldStop, sp.heldReload, sp.heldSub
		c.HeldPoll = sp.heldPoll
		c.SetInitialState(stateNames[0])
		// a third of the capability-less runnables are values of a non-comparable dynamic type
		c.Unhashable = (s.seed+uint64(i))%3 == 0
		if sp.errOnStop {
			rr := s.mkErrInit(i)
			c.ErrOnStop = &rr
		}
		s.cores = append(s.cores, c)
		rs = append(rs, supmock.Wrap(c))
	}
	pctx := &envCtx{done: make(chan struct{})}
	s.pcancel = func() {
		if s.r.Chance(1, 2) {
			pctx.end(context.Canceled)
		} else {
			pctx.end(context.DeadlineExceeded)
		}
	}
	su, sd := time.Hour, time.Hour
	if s.startupShort {
		su = 60 * time.Millisecond
	}
	suInit := time.Millisecond
	if s.suTimeout > 0 {
		su, suInit = s.suTimeout, s.suInitial
	}
	if s.shutdownShort {
		sd = 120 * time.Millisecond
	}
	sup, err := supervisor.New(
		supervisor.WithContext(pctx),
		supervisor.WithRunnables(rs...),
		supervisor.WithLogHandler(s.ph),
		supervisor.WithStartupInitial(suInit),
		supervisor.WithStartupTimeout(su),
		supervisor.WithShutdownTimeout(sd),
		supervisor.WithSignals(syscall.SIGUSR2), // real OS signals are not part of the scenarios
	)
	if err != nil {
		return err
	}
	s.sup = sup
	s.pending = map[int]string{}
	s.subs = map[int]*subSt{}
	if s.errs == nil {
		s.errs = map[int]error{}
	}
	s.runDone = make(chan struct{})
	s.readySet = make([]bool, len(s.specs))
	s.stopReleased = make([]bool, len(s.specs))
	s.runReleased = make([]bool, len(s.specs))
	return nil
}

func (s *scn) startRun() {
	// the call is logged before it is made (an offer, like Call k op): Run()'s first critical section
	// (p.runEntered) happens at some later moment
	s.rec.Emit("RunEnter")
	go func() {
		err := s.sup.Run()
		res := "other"
		if err == nil {
			res = "nil"
		} else if strings.HasPrefix(err.Error(), "timeout waiting for runnable to start") {
			res = "timeout"
		} else {
			s.mu.Lock()
			for id, e := range s.errs {
				if e == err {
					res = fmt.Sprintf("err %d", id)
				}
			}
			s.mu.Unlock()
			if res == "other" {
				res = "other " + strings.ReplaceAll(err.Error(), " ", "_")
			}
		}
		s.runRes = res
		s.rec.Emit("RunReturn %s", res)
		close(s.runDone)
	}()
}

func (s *scn) runReturned() bool {
	select {
	case <-s.runDone:
		return true
	default:
		return false
	}
}

func (s *scn) has(ev string) bool { return s.rec.Has(ev) }

func (s *scn) quiesce() bool {
	c := s.rec.QuiescentAt(3 * time.Second)
	if c < 0 {
		return false
	}
	return s.rec.EmitIfCount(c, "Quiet")
}

func (s *scn) apiCall(op string, f func()) {
	s.mu.Lock()
	s.nextK++
	k := s.nextK
	s.pending[k] = op
	s.mu.Unlock()
	s.rec.Emit("Call %d %s", k, op)
	go func() {
		f()
		s.mu.Lock()
		delete(s.pending, k)
		s.mu.Unlock()
		s.rec.Emit("Ret %d %s", k, op)
	}()
}

func (s *scn) snap() {
	cnt := s.rec.QuiescentAt(3 * time.Second)
	if cnt < 0 {
		s.rec.Emit("NoQuiesce")
		return
	}
	s.mu.Lock()
	var bl []int
	for k := range s.pending {
		bl = append(bl, k)
	}
	s.mu.Unlock()
	sort.Ints(bl)
	var bs []string
	for _, k := range bl {
		bs = append(bs, fmt.Sprint(k))
	}
	gor := director.LibraryGoroutines()
	ret := s.runReturned()
	ms := s.mapStr(s.sup.GetStateMap())
	// nothing may have moved while we looked: still quiescent, and no event since cnt (checked atomically)
	if !s.rec.WaitQuiescentN(time.Second, 2, 200*time.Microsecond) ||
		!s.rec.EmitIfCount(cnt, "Snap blocked=%s smap=%s ret=%d gor=%d", strings.Join(bs, "+"), ms, b2i(ret), len(gor)) {
		s.rec.Emit("NoQuiesce")
	}
}

type action struct {
	name string
	w    int
	f    func()
}

func (s *scn) mapStr(m supervisor.StateMap) string {
	var ms []string
	for i := range s.specs {
		if v, ok := m[fmt.Sprintf("r%d", i)]; ok {
			ms = append(ms, fmt.Sprint(stateCode(v)))
		} else {
			ms = append(ms, "-")
		}
	}
	return strings.Join(ms, ",")
}

// candidates lists the environment actions that are applicable now.
func (s *scn) candidates(phase string) []action {
	var as []action
	add := func(n string, w int, f func()) { as = append(as, action{n, w, f}) }
	evs := s.rec.Events()
	seen := map[string]bool{}
	for _, e := range evs {
		seen[e] = true
	}
	prefixSeen := func(p string) bool {
		for _, e := range evs {
			if strings.HasPrefix(e, p) {
				return true
			}
		}
		return false
	}
	for i, sp := range s.specs {
		i, sp := i, sp
		c := s.cores[i]
		inRun := seen[fmt.Sprintf("RunCall %d", i)] && !prefixSeen(fmt.Sprintf("RunRet %d ", i))
		stopCalled := seen[fmt.Sprintf("StopCall %d", i)]
		if sp.stateable && inRun && !s.readySet[i] && !sp.neverReady {
			add(fmt.Sprintf("Ready %d", i), 6, func() { s.readySet[i] = true; c.SetReady(true) })
		}
		if sp.heldPoll && c.PollPending.Load() {
			w := 8
			add(fmt.Sprintf("PollAnswer %d", i), w, func() {
				ans := s.readySet[i] || (phase == "drain")
				if !ans && !sp.neverReady && s.r.Chance(1, 3) {
					ans = true
					s.readySet[i] = true
				}
				select {
				case c.PollRelease <- ans:
				case <-time.After(50 * time.Millisecond):
				}
			})
		}
		if sp.stateable && s.readySet[i] && !sp.heldPoll && phase == "steady" {
			add(fmt.Sprintf("Unready %d", i), 1, func() { s.readySet[i] = false; c.SetReady(false) })
		}
		if sp.stateable && phase != "drain" {
			add(fmt.Sprintf("Emit %d", i), 3, func() {
				code := 1 + s.r.Intn(5)
				if s.r.Chance(1, 4) {
					code = stateCode(c.State()) // duplicate
				}
				c.Emit(stateNames[code], code)
			})
		}
		if sp.heldSub && phase != "drain" {
			add(fmt.Sprintf("SubRelease %d", i), 2, func() {
				s.rec.Emit("SubRel %d", i)
				select {
				case c.SubRelease <- struct{}{}:
				default:
				}
			})
		}
		if inRun && !s.runReleased[i] {
			allowed := false
			switch sp.exit {
			case "free":
				allowed = true
			case "sig":
				allowed = sp.heldRun && (stopCalled || c.CtxDone.Load())
			}
			if allowed {
				w := 2
				if phase == "drain" {
					w = 8
				}
				add(fmt.Sprintf("RunRet %d", i), w, func() {
					s.runReleased[i] = true
					var rr supmock.RunResult
					switch s.r.Intn(4) {
					case 0:
						rr = supmock.RunResult{}
					case 1:
						rr = s.mkErr(true)
					default:
						if sp.exit == "free" || s.r.Bool() {
							rr = s.mkErr(false)
						} else {
							rr = supmock.RunResult{}
						}
					}
					c.RunRelease <- rr
				})
			}
		}
		if sp.heldStop && stopCalled && !seen[fmt.Sprintf("StopRet %d", i)] && !s.stopReleased[i] {
			w := 3
			if phase == "drain" {
				w = 8
			}
			add(fmt.Sprintf("StopRelease %d", i), w, func() { s.stopReleased[i] = true; c.StopRelease <- struct{}{} })
		}
		if sp.heldReload {
			calls, rets := 0, 0
			for _, e := range evs {
				if e == fmt.Sprintf("ReloadCall %d", i) {
					calls++
				}
				if e == fmt.Sprintf("ReloadRet %d", i) {
					rets++
				}
			}
			if calls > rets && len(c.ReloadRelease) == 0 {
				add(fmt.Sprintf("ReloadRelease %d", i), 6, func() { c.ReloadRelease <- struct{}{} })
			}
		}
		if phase == "steady" || phase == "startup" {
			if sp.rsender {
				add(fmt.Sprintf("TrigR %d", i), 2, func() {
					s.rec.Emit("TrigR %d", i)
					go func() { c.ReloadTrig <- struct{}{} }()
				})
			}
		}
		if phase == "trigger" && sp.ssender {
			add(fmt.Sprintf("TrigS %d", i), 4, func() {
				s.shutdownTriggered = true
				s.rec.Emit("TrigS %d", i)
				go func() { c.ShutdownTrig <- struct{}{} }()
			})
		}
	}
	if phase == "steady" || phase == "startup" {
		add("ReloadAll", 3, func() { s.apiCall("ReloadAll", s.sup.ReloadAll) })
		add("SigHup", 3, func() { s.apiCall("Sig hup", func() { s.sup.SendSignal(syscall.SIGHUP) }) })
		add("SigOther", 1, func() { s.apiCall("Sig other", func() { s.sup.SendSignal(syscall.SIGUSR1) }) })
		add("Subscribe", 2, func() {
			s.nextSub++
			c := s.nextSub
			ctx, cancel := context.WithCancel(context.Background())
			s.rec.Emit("Subscribe %d", c)
			ch := s.sup.SubscribeStateChanges(ctx)
			s.subs[c] = &subSt{ch: ch, cancel: cancel}
		})
	}
	for c, sb := range s.subs {
		c, sb := c, sb
		if sb.gone {
			continue
		}
		add(fmt.Sprintf("SubRecv %d", c), 3, func() {
			// read only at a quiescent point, so that no broadcast races with the read
			if !s.rec.WaitQuiescent(3 * time.Second) {
				return
			}
			select {
			case m, ok := <-sb.ch:
				if !ok {
					s.rec.Emit("SubClosed %d", c)
					sb.gone = true
				} else {
					s.rec.Emit("SubRecv %d %s", c, s.mapStr(m))
				}
			default:
			}
		})
		if !sb.closed {
			add(fmt.Sprintf("SubCancel %d", c), 1, func() {
				sb.closed = true
				s.rec.Emit("SubCancel %d", c)
				sb.cancel()
			})
		}
	}
	if phase == "trigger" || (phase == "drain" && s.r.Chance(1, 6)) || (phase == "startup" && s.r.Chance(1, 12)) {
		mark := func() { s.shutdownTriggered = true }
		add("Shutdown", 4, func() { mark(); s.apiCall("Shutdown", s.sup.Shutdown) })
		add("SigTerm", 3, func() { mark(); s.apiCall("Sig term", func() { s.sup.SendSignal(syscall.SIGTERM) }) })
		add("SigInt", 2, func() { mark(); s.apiCall("Sig int", func() { s.sup.SendSignal(syscall.SIGINT) }) })
		if !s.parentCancelled {
			add("ParentCancel", 3, func() {
				mark()
				s.parentCancelled = true
				s.rec.Emit("ParentCancel")
				s.pcancel()
			})
		}
	}
	add("Snap", 2, s.snap)
	return as
}

func (s *scn) pick(as []action) action {
	tot := 0
	for _, a := range as {
		tot += a.w
	}
	x := s.r.Intn(tot)
	for _, a := range as {
		if x < a.w {
			return a
		}
		x -= a.w
	}
	return as[0]
}

// preludeGatefail: answer the gate's first k-1 polls with false, then, while the k-th IsRunning()
// call is pending, let runnable 0 fail, wait until its error is queued, and answer true.
func (s *scn) preludeGatefail() {
	c1 := s.cores[1]
	k := 1 + s.r.Intn(4)
	for p := 1; p <= k; p++ {
		deadline := time.Now().Add(3 * time.Second)
		for !c1.PollPending.Load() && time.Now().Before(deadline) {
			time.Sleep(200 * time.Microsecond)
		}
		if !c1.PollPending.Load() {
			return
		}
		if p < k {
			select {
			case c1.PollRelease <- false:
			case <-time.After(time.Second):
				return
			}
			continue
		}
		s.quiesce()
		if s.r.Bool() {
			// a termination signal queued during start-up (nothing reads signalChan before reap):
			// the gate's failure must still be what Run() returns
			s.shutdownTriggered = true
			sig := syscall.SIGTERM
			name := "Sig term"
			if s.r.Bool() {
				sig, name = syscall.SIGINT, "Sig int"
			}
			s.apiCall(name, func() { s.sup.SendSignal(sig) })
			s.quiesce()
		}
		s.runReleased[0] = true
		s.cores[0].RunRelease <- s.mkErr(false)
		s.quiesce()
		s.readySet[1] = true
		select {
		case c1.PollRelease <- true:
		case <-time.After(time.Second):
		}
		s.quiesce()
	}
}

// preludeGatecancel (witness of C03_pending_refuted): while the gate's IsRunning() call is pending,
// let runnable 0 fail and wait until its error is queued; then cancel the parent context and answer
// false: the select in blockUntilRunnableReady has errorChan and ctx.Done ready at once.
func (s *scn) preludeGatecancel() {
	c1 := s.cores[1]
	deadline := time.Now().Add(3 * time.Second)
	for !c1.PollPending.Load() && time.Now().Before(deadline) {
		time.Sleep(200 * time.Microsecond)
	}
	if !c1.PollPending.Load() {
		return
	}
	s.quiesce()
	s.runReleased[0] = true
	s.cores[0].RunRelease <- s.mkErr(false)
	s.quiesce()
	s.shutdownTriggered = true
	s.parentCancelled = true
	s.rec.Emit("ParentCancel")
	s.pcancel()
	select {
	case c1.PollRelease <- false:
	case <-time.After(time.Second):
	}
	s.quiesce()
}

// preludeFinalState: park runnable 0's state monitor (inside its broadcast, on a log record) while
// the runnable goes Stopping -> Stopped during shutdown, then let it continue.
func (s *scn) preludeFinalState() {
	c0 := s.cores[0]
	s.rec.WaitFor("RunCall 0", 3*time.Second)
	s.readySet[0] = true
	c0.SetReady(true)
	s.quiesce()
	park := s.ph.ParkOn("State map entry updated")
	c0.Emit("Running", 2)
	if !park.WaitReached(2 * time.Second) {
		park.Release()
		return
	}
	c0.Emit("Stopping", 4)
	c0.Emit("Stopped", 5)
	s.shutdownTriggered = true
	s.apiCall("Shutdown", s.sup.Shutdown)
	s.rec.WaitFor("StopRet 0", 3*time.Second)
	time.Sleep(2 * time.Millisecond)
	park.Release()
	select {
	case <-s.runDone:
	case <-time.After(3 * time.Second):
	}
	s.quiesce()
	s.snap()
}

// preludeSlowStop: shutdown is triggered; one Stop() is held for longer than the shutdown timeout
// (the timeout only bounds the wait AFTER the Stop() calls: contexts stay live, nothing times out
// during the Stop phase, and a runnable that never returns is abandoned one timeout after it).
func (s *scn) preludeSlowStop() {
	k := -1
	for i, sp := range s.specs {
		if sp.heldStop {
			k = i
		}
	}
	s.shutdownTriggered = true
	if s.r.Bool() {
		s.apiCall("Shutdown", s.sup.Shutdown)
	} else {
		s.apiCall("Sig term", func() { s.sup.SendSignal(syscall.SIGTERM) })
	}
	if !s.rec.WaitFor(fmt.Sprintf("StopCall %d", k), 3*time.Second) {
		return
	}
	s.quiesce()
	time.Sleep(200 * time.Millisecond) // the shutdown timeout is 120 ms
	s.quiesce()
	s.snap()
	s.stopReleased[k] = true
	s.cores[k].StopRelease <- struct{}{}
	select {
	case <-s.runDone:
	case <-time.After(3 * time.Second):
		// real-time verdict (the untimed model cannot give it): every Stop() has returned, the shutdown
		// timeout is 120 ms, and Run() is still not back 3 s later
		s.rec.Emit("Overdue Run() not returned 3s after the last Stop() returned (shutdown timeout 120ms)")
	}
	s.quiesce()
	s.snap()
}

// preludeLateSub: the runnable leaves its initial state before the monitor obtains the state channel,
// then goes back to the state startRunnable recorded.
func (s *scn) preludeLateSub() {
	c0 := s.cores[0]
	s.rec.WaitFor("RunCall 0", 3*time.Second)
	s.readySet[0] = true
	c0.SetReady(true)
	s.quiesce()
	b := 1 + s.r.Intn(4)
	c0.Emit(stateNames[b], b)
	s.quiesce()
	s.rec.Emit("SubRel 0")
	c0.SubRelease <- struct{}{}
	s.quiesce()
	s.snap()
	c0.Emit(stateNames[0], 0) // back to the recorded initial state
	s.quiesce()
	s.snap()
}

// preludeSubClose: two subscribers; the broadcasting monitor is parked after its first send; both
// subscriptions are cancelled; the broadcast resumes.
func (s *scn) preludeSubClose() {
	c0 := s.cores[0]
	s.rec.WaitFor("RunCall 0", 3*time.Second)
	s.readySet[0] = true
	c0.SetReady(true)
	s.quiesce()
	for k := 0; k < 2; k++ {
		s.nextSub++
		c := s.nextSub
		ctx, cancel := context.WithCancel(context.Background())
		s.rec.Emit("Subscribe %d", c)
		ch := s.sup.SubscribeStateChanges(ctx)
		s.subs[c] = &subSt{ch: ch, cancel: cancel}
	}
	s.quiesce()
	park := s.ph.ParkOn("Sent state update to subscriber")
	c0.Emit("Running", 2)
	if !park.WaitReached(2 * time.Second) {
		park.Release()
		return
	}
	for c, sb := range s.subs {
		if !sb.closed {
			sb.closed = true
			s.rec.Emit("SubCancel %d", c)
			sb.cancel()
		}
	}
	time.Sleep(3 * time.Millisecond)
	park.Release()
	s.quiesce()
}

// preludeSubEntry: subscribe while Run() waits at runnable 0's gate, take the initial snapshot, open
// the gate, let runnable 1 start and become ready without ever changing state, then look at the
// subscriber's channel and at GetStateMap() at a quiescent point.
func (s *scn) preludeSubEntry() {
	s.rec.WaitFor("RunCall 0", 3*time.Second)
	s.quiesce()
	s.nextSub++
	c := s.nextSub
	ctx, cancel := context.WithCancel(context.Background())
	s.rec.Emit("Subscribe %d", c)
	ch := s.sup.SubscribeStateChanges(ctx)
	sb := &subSt{ch: ch, cancel: cancel}
	s.subs[c] = sb
	s.quiesce()
	take := func() {
		select {
		case m, ok := <-sb.ch:
			if ok {
				s.rec.Emit("SubRecv %d %s", c, s.mapStr(m))
			}
		default:
		}
	}
	take()
	s.readySet[0] = true
	s.cores[0].SetReady(true)
	s.rec.WaitFor("RunCall 1", 3*time.Second)
	s.quiesce()
	s.readySet[1] = true
	s.cores[1].SetReady(true)
	s.quiesce()
	take()
	s.snap()
}

func (s *scn) allCallersBack() bool {
	s.mu.Lock()
	defer s.mu.Unlock()
	return len(s.pending) == 0
}

// releaseReachedStops releases every held Stop() that has been called and not released, until nothing moves.
func (s *scn) releaseReachedStops() {
	for round := 0; round < 8; round++ {
		s.quiesce()
		did := false
		for i, sp := range s.specs {
			if sp.heldStop && !s.stopReleased[i] && s.has(fmt.Sprintf("StopCall %d", i)) && !s.has(fmt.Sprintf("StopRet %d", i)) {
				// a lifecycle-style Stop first waits for its Run: the release is only consumed afterwards
				s.stopReleased[i] = true
				s.cores[i].StopRelease <- struct{}{}
				did = true
			}
		}
		if !did {
			return
		}
	}
}

// settle waits (real time) until Run() (if it was called) and every API caller have returned; it reports
// whether they did.
func (s *scn) settle(d time.Duration, runCalled bool) bool {
	done := func() bool { return (!runCalled || s.runReturned()) && s.allCallersBack() }
	deadline := time.Now().Add(d)
	for time.Now().Before(deadline) {
		if done() {
			return true
		}
		time.Sleep(2 * time.Millisecond)
	}
	return done()
}

func (s *scn) blockedOps() string {
	s.mu.Lock()
	defer s.mu.Unlock()
	var ks []int
	for k := range s.pending {
		ks = append(ks, k)
	}
	sort.Ints(ks)
	var out []string
	for _, k := range ks {
		out = append(out, fmt.Sprintf("%d:%s", k, strings.ReplaceAll(s.pending[k], " ", "")))
	}
	return strings.Join(out, "+")
}

// runShutdownFirst: Shutdown() before Run(), then Run().
func (s *scn) runShutdownFirst() {
	s.shutdownTriggered = true
	s.apiCall("Shutdown", s.sup.Shutdown)
	s.releaseReachedStops()
	s.snap()
	if s.r.Chance(1, 3) {
		s.apiCall("Shutdown", s.sup.Shutdown) // a second caller waits on the sync.Once
		s.quiesce()
	}
	runCalled := s.r.Chance(4, 5)
	if runCalled {
		s.startRun()
		s.releaseReachedStops()
		s.snap()
	}
	// real-time verdict: the shutdown timeout (when short) is 120 ms; nothing is held any more
	if !s.settle(1500*time.Millisecond, runCalled) {
		s.rec.Emit("Overdue Shutdown()-before-Run(): 1.5s after every held Stop() was released: Run()-called=%v Run()-returned=%v still-blocked=%s",
			runCalled, s.runReturned(), s.blockedOps())
	}
	s.quiesce()
	s.snap()
}

// runNeverReturn: one runnable's Run never returns; shutdown by a direct call or a signal.
func (s *scn) runNeverReturn() {
	s.startRun()
	s.rec.WaitQuiescent(3 * time.Second)
	s.quiesce()
	s.shutdownTriggered = true
	if s.r.Bool() {
		s.apiCall("Shutdown", s.sup.Shutdown)
	} else {
		s.apiCall("Sig term", func() { s.sup.SendSignal(syscall.SIGTERM) })
	}
	s.quiesce()
	s.snap()
	if !s.settle(1500*time.Millisecond, true) { // the shutdown timeout is 120 ms
		s.rec.Emit("Overdue never-returning Run(): 1.5s after the shutdown trigger (shutdown timeout 120ms): Run()-returned=%v still-blocked=%s",
			s.runReturned(), s.blockedOps())
	}
	s.quiesce()
	s.snap()
}

// releaseReloads releases held Reload() calls until the reload manager is idle and nothing moves.
func (s *scn) releaseReloads() {
	for round := 0; round < 40; round++ {
		s.quiesce()
		did := false
		for i, sp := range s.specs {
			if !sp.heldReload {
				continue
			}
			calls, rets := 0, 0
			for _, e := range s.rec.Events() {
				if e == fmt.Sprintf("ReloadCall %d", i) {
					calls++
				}
				if e == fmt.Sprintf("ReloadRet %d", i) {
					rets++
				}
			}
			if calls > rets && len(s.cores[i].ReloadRelease) == 0 {
				s.cores[i].ReloadRelease <- struct{}{}
				did = true
			}
		}
		if !did {
			return
		}
	}
}

// preludeHupBurst: one request starts a pass that is held inside Reload(); a burst of further requests from the
// three sources arrives meanwhile; then every Reload() is released until the manager is idle.
func (s *scn) preludeHupBurst() {
	s.apiCall("Sig hup", func() { s.sup.SendSignal(syscall.SIGHUP) })
	s.quiesce()
	n := 2 + s.r.Intn(3)
	for b := 0; b < n; b++ {
		switch s.r.Intn(4) {
		case 0:
			s.apiCall("ReloadAll", s.sup.ReloadAll)
		case 1:
			var snd []int
			for i, sp := range s.specs {
				if sp.rsender {
					snd = append(snd, i)
				}
			}
			if len(snd) > 0 {
				i := snd[s.r.Intn(len(snd))]
				c := s.cores[i]
				s.rec.Emit("TrigR %d", i)
				go func() { c.ReloadTrig <- struct{}{} }()
				break
			}
			fallthrough
		default:
			s.apiCall("Sig hup", func() { s.sup.SendSignal(syscall.SIGHUP) })
		}
		if s.r.Bool() {
			s.quiesce()
		}
	}
	s.quiesce()
	s.snap()
	s.releaseReloads()
	s.quiesce()
	s.snap()
}

// preludeFullSub: see family fullsub.
func (s *scn) preludeFullSub() {
	c0 := s.cores[0]
	s.rec.WaitFor("RunCall 0", 3*time.Second)
	s.readySet[0] = true
	c0.SetReady(true)
	s.quiesce()
	var ids []int
	for k := 0; k < 2; k++ {
		s.nextSub++
		c := s.nextSub
		ctx, cancel := context.WithCancel(context.Background())
		s.rec.Emit("Subscribe %d", c)
		ch := s.sup.SubscribeStateChanges(ctx)
		s.subs[c] = &subSt{ch: ch, cancel: cancel}
		ids = append(ids, c)
		s.quiesce()
	}
	drain := func(c int) {
		sb := s.subs[c]
		for {
			select {
			case m, ok := <-sb.ch:
				if !ok {
					return
				}
				s.rec.Emit("SubRecv %d %s", c, s.mapStr(m))
			default:
				return
			}
		}
	}
	reader := ids[s.r.Intn(2)]
	for k := 0; k < 13; k++ {
		code := 1 + k%5
		c0.Emit(stateNames[code], code)
		s.quiesce()
		drain(reader)
	}
	s.quiesce()
	for _, c := range ids {
		drain(c)
	}
	s.quiesce()
	s.snap()
}

// preludeSlowString: see family slowstring.
func (s *scn) preludeSlowString() {
	c0, c1 := s.cores[0], s.cores[1]
	s.rec.WaitFor("RunCall 0", 3*time.Second)
	s.readySet[0] = true
	c0.SetReady(true)
	s.rec.WaitFor("RunCall 1", 3*time.Second)
	s.readySet[1] = true
	c1.SetReady(true)
	s.quiesce()
	s.nextSub++
	c := s.nextSub
	ctx, cancel := context.WithCancel(context.Background())
	s.rec.Emit("Subscribe %d", c)
	ch := s.sup.SubscribeStateChanges(ctx)
	sb := &subSt{ch: ch, cancel: cancel}
	s.subs[c] = sb
	s.quiesce()
	drain := func() {
		for {
			select {
			case m, ok := <-sb.ch:
				if !ok {
					return
				}
				s.rec.Emit("SubRecv %d %s", c, s.mapStr(m))
			default:
				return
			}
		}
	}
	drain()
	a, b := 1+s.r.Intn(2), 3+s.r.Intn(2)
	c1.HoldNextString()
	c0.Emit(stateNames[a], a)
	select {
	case <-c1.StringReached:
	case <-time.After(2 * time.Second):
		c1.DisarmString()
		return
	}
	c1.Emit(stateNames[b], b) // while runnable 0's broadcast is inside String() of runnable 1
	s.rec.WaitQuiescent(time.Second)
	c1.StringRelease <- struct{}{}
	s.quiesce()
	drain()
	s.quiesce()
	s.snap()
}

// preludeShortTimers: a Reload() call is held for 2.5 start-up timeouts; a second reload request arrives meanwhile.
func (s *scn) preludeShortTimers() {
	s.apiCall("ReloadAll", s.sup.ReloadAll)
	s.quiesce()
	time.Sleep(150 * time.Millisecond) // start-up timeout 60 ms, shutdown timeout 120 ms
	if s.r.Bool() {
		s.apiCall("ReloadAll", s.sup.ReloadAll)
	} else {
		s.apiCall("Sig hup", func() { s.sup.SendSignal(syscall.SIGHUP) })
	}
	s.quiesce()
	time.Sleep(100 * time.Millisecond)
	s.quiesce()
	s.snap()
}

// preludeGateTimed: real-time verdict on the start-up deadline (300 ms; verdicts at 2x with margins >= 250 ms).
func (s *scn) preludeGateTimed(t0 time.Time) {
	if s.specs[0].neverReady {
		select {
		case <-s.runDone:
		case <-time.After(3 * time.Second):
		}
		if el := time.Since(t0); el > 600*time.Millisecond {
			s.rec.Emit("StartupOverdue never-ready gate: Run() back after %dms, start-up timeout 300ms (initial delay 37ms); returned=%v",
				el.Milliseconds(), s.runReturned())
		}
		return
	}
	// ready only 450 ms after Run() began: 150 ms after the deadline
	time.Sleep(time.Until(t0.Add(450 * time.Millisecond)))
	late := time.Since(t0)
	s.readySet[0] = true
	s.cores[0].SetReady(true)
	select {
	case <-s.runDone:
	case <-time.After(1500 * time.Millisecond):
	}
	if s.has("RunCall 1") {
		s.rec.Emit("StartupOverdue gate of runnable 0 opened although it became ready only %dms after Run() began (start-up timeout 300ms): runnable 1 was started",
			late.Milliseconds())
	}
}

// runTimeoutFinal: see family timeoutfinal.
func (s *scn) runTimeoutFinal() {
	c0 := s.cores[0]
	s.startRun()
	s.rec.WaitFor("RunCall 0", 3*time.Second)
	s.readySet[0] = true
	c0.SetReady(true)
	s.rec.WaitFor(fmt.Sprintf("RunCall %d", len(s.specs)-1), 3*time.Second)
	s.quiesce()
	b := 1 + s.r.Intn(3)
	c0.Emit(stateNames[b], b)
	s.quiesce()
	s.snap()
	s.shutdownTriggered = true
	if s.r.Bool() {
		s.apiCall("Shutdown", s.sup.Shutdown)
	} else {
		s.apiCall("Sig term", func() { s.sup.SendSignal(syscall.SIGTERM) })
	}
	if !s.settle(1500*time.Millisecond, true) { // the shutdown timeout is 120 ms
		s.rec.Emit("Overdue timeoutfinal: 1.5s after the trigger (shutdown timeout 120ms): Run()-returned=%v still-blocked=%s",
			s.runReturned(), s.blockedOps())
	}
	s.quiesce()
	s.snap()
}

// runLateErr: the shutdown gives up at its timeout; afterwards the stuck runnables return real errors.
func (s *scn) runLateErr() {
	s.startRun()
	s.rec.WaitQuiescent(3 * time.Second)
	for i, sp := range s.specs {
		if sp.stateable {
			s.readySet[i] = true
			s.cores[i].SetReady(true)
		}
	}
	s.rec.WaitFor(fmt.Sprintf("RunCall %d", len(s.specs)-1), 3*time.Second)
	s.quiesce()
	s.shutdownTriggered = true
	switch s.r.Intn(3) {
	case 0:
		s.apiCall("Shutdown", s.sup.Shutdown)
	case 1:
		s.apiCall("Sig term", func() { s.sup.SendSignal(syscall.SIGTERM) })
	default:
		s.parentCancelled = true
		s.rec.Emit("ParentCancel")
		s.pcancel()
	}
	if !s.settle(1500*time.Millisecond, true) { // the shutdown timeout is 120 ms
		s.rec.Emit("Overdue late-error scenario: 1.5s after the trigger (shutdown timeout 120ms): Run()-returned=%v still-blocked=%s",
			s.runReturned(), s.blockedOps())
	}
	s.quiesce()
	s.snap()
	// now the stuck runnables fail, one after the other
	for i, sp := range s.specs {
		if sp.heldRun && !s.runReleased[i] && s.has(fmt.Sprintf("RunCall %d", i)) {
			s.runReleased[i] = true
			s.cores[i].RunRelease <- s.mkErr(false)
			s.quiesce()
		}
	}
	s.snap()
}

func (s *scn) run() {
	if s.family == "lateerr" {
		s.runLateErr()
		return
	}
	if s.family == "timeoutfinal" {
		s.runTimeoutFinal()
		return
	}
	if s.family == "shutdownfirst" {
		s.runShutdownFirst()
		return
	}
	if s.family == "neverreturn" {
		s.runNeverReturn()
		return
	}
	if s.family == "earlyshutdown" {
		// park Run() on its second log line: it has been entered, nothing is launched yet
		park := s.ph.ParkOn("Listening for signals")
		s.startRun()
		if park.WaitReached(2 * time.Second) {
			s.shutdownTriggered = true
			s.apiCall("Shutdown", s.sup.Shutdown)
			s.rec.WaitQuiescent(2 * time.Second)
		}
		park.Release()
	} else if s.family == "gatetimed" {
		t0 := time.Now()
		s.startRun()
		s.preludeGateTimed(t0)
	} else {
		s.startRun()
	}
	// let Run() get going before the environment acts (a Shutdown() that overtakes Run()'s first
	// statement stops every registered runnable: that ordering is the business of family shutdownfirst)
	s.rec.WaitQuiescent(3 * time.Second)
	if s.family == "gatefail" {
		s.preludeGatefail()
	}
	if s.family == "gatecancel" {
		s.preludeGatecancel()
	}
	if s.family == "finalstate" {
		s.preludeFinalState()
	}
	if s.family == "slowstop" {
		s.preludeSlowStop()
	}
	if s.family == "latesub" {
		s.preludeLateSub()
	}
	if s.family == "subclose" {
		s.preludeSubClose()
	}
	if s.family == "subentry" {
		s.preludeSubEntry()
	}
	if s.family == "shorttimers" {
		s.preludeShortTimers()
	}
	if s.family == "hupburst" {
		s.preludeHupBurst()
	}
	if s.family == "slowstring" {
		s.preludeSlowString()
	}
	if s.family == "fullsub" {
		s.preludeFullSub()
	}
	steps := 6 + s.r.Intn(18)
	phase := "startup"
	trigAt := steps * 2 / 3
	for i := 0; i < steps+40; i++ {
		if i == trigAt && !s.shutdownTriggered {
			phase = "trigger"
		}
		if s.runReturned() && phase != "drain" {
			phase = "drain"
		}
		as := s.candidates(phase)
		if phase == "trigger" {
			// keep only trigger-ish actions with high probability
			var ts []action
			for _, a := range as {
				switch strings.Fields(a.name)[0] {
				case "Shutdown", "SigTerm", "SigInt", "ParentCancel", "TrigS", "RunRet":
					ts = append(ts, a)
				}
			}
			if len(ts) > 0 && s.r.Chance(4, 5) {
				as = ts
			}
		}
		a := s.pick(as)
		a.f()
		if phase == "trigger" && s.shutdownTriggered {
			phase = "drain"
			if s.r.Chance(1, 3) {
				// a second, concurrent trigger
				as2 := s.candidates("trigger")
				var ts []action
				for _, b := range as2 {
					switch strings.Fields(b.name)[0] {
					case "Shutdown", "SigTerm", "ParentCancel", "TrigS":
						ts = append(ts, b)
					}
				}
				if len(ts) > 0 {
					s.pick(ts).f()
				}
			}
		}
		if s.r.Chance(4, 5) {
			s.quiesce()
		}
		if phase == "startup" && i >= 3 {
			phase = "steady"
		}
		if phase == "drain" && s.runReturned() && s.allCallersBack() && i >= steps {
			break
		}
	}
	// drain deterministically: release whatever the contracts allow until everything returned
	for round := 0; round < 40 && !(s.runReturned() && s.allCallersBack()); round++ {
		if !s.shutdownTriggered {
			s.shutdownTriggered = true
			s.apiCall("Shutdown", s.sup.Shutdown)
		}
		s.quiesce()
		as := s.candidates("drain")
		did := false
		for _, a := range as {
			switch strings.Fields(a.name)[0] {
			case "RunRet", "StopRelease", "ReloadRelease", "Ready", "SubRelease", "PollAnswer":
				a.f()
				did = true
			}
			if did {
				break
			}
		}
		if !did {
			break
		}
	}
	// close subscriptions and observe closure
	for c, sb := range s.subs {
		if !sb.closed {
			sb.closed = true
			s.rec.Emit("SubCancel %d", c)
			sb.cancel()
		}
	}
	s.quiesce()
	ids := make([]int, 0, len(s.subs))
	for c := range s.subs {
		ids = append(ids, c)
	}
	sort.Ints(ids)
	for _, c := range ids {
		sb := s.subs[c]
		for !sb.gone {
			select {
			case m, ok := <-sb.ch:
				if !ok {
					s.rec.Emit("SubClosed %d", c)
					sb.gone = true
				} else {
					s.rec.Emit("SubRecv %d %s", c, s.mapStr(m))
				}
			case <-time.After(500 * time.Millisecond):
				s.rec.Emit("SubStuck %d", c)
				sb.gone = true
			}
		}
	}
	s.snap()
}

func child(seed uint64, family string) {
	out := bufio.NewWriter(os.Stdout)
	defer out.Flush()
	// NOTE: an empty-string state name (stateNames[0] = "") is deliberately NOT generated: the unchanged state
	// monitor initialises its duplicate filter with the zero value "" when the map has no entry yet, so a first
	// state "" is dropped as a duplicate - the model has no such conflation and rejects those traces (observed
	// 3/210); seeded change C06-7 needs that device and stays missed until the conflation is modelled or repaired.
	s := &scn{r: prng.New(seed), seed: seed, family: family, out: out}
	s.genSpecs()
	s.header(seed)
	if err := s.build(); err != nil {
		fmt.Fprintf(out, "EV BuildError %v\nEND\n", err)
		return
	}
	finished := make(chan struct{})
	go func() {
		s.run()
		close(finished)
	}()
	select {
	case <-finished:
	case <-time.After(25 * time.Second):
		s.rec.Emit("Watchdog")
	}
	for _, e := range s.rec.Events() {
		fmt.Fprintf(out, "EV %s\n", e)
	}
	fmt.Fprintf(out, "INFO parks=%d logrecords=%d\nEND\n", s.ph.Matched.Load(), s.ph.Records.Load())
}

func main() {
	isChild := flag.Bool("child", false, "run one scenario")
	seed := flag.Uint64("seed", 1, "seed")
	n := flag.Int("n", 50, "number of scenarios")
	family := flag.String("family", "mixed", "scenario family")
	par := flag.Int("par", 8, "parallel children")
	flag.Parse()
	if *isChild {
		child(*seed, *family)
		return
	}
	fams := []string{"mixed", "startup", "timeout", "state", "reload", "sdsender", "big", "gatefail", "finalstate", "errs", "earlyshutdown", "latesub", "subclose", "gatecancel", "subentry", "slowstop", "shutdownfirst", "neverreturn", "lateerr", "shorttimers", "gatetimed", "timeoutfinal", "hupburst", "slowstring", "fullsub"}
	type job struct {
		seed uint64
		fam  string
	}
	jobs := make(chan job)
	var mu sync.Mutex
	w := bufio.NewWriterSize(os.Stdout, 1<<20)
	var wg sync.WaitGroup
	self, _ := os.Executable()
	for p := 0; p < *par; p++ {
		wg.Add(1)
		go func() {
			defer wg.Done()
			for j := range jobs {
				cmd := exec.Command(self, "-child", "-seed", fmt.Sprint(j.seed), "-family", j.fam)
				var ob, eb bytes.Buffer
				cmd.Stdout, cmd.Stderr = &ob, &eb
				err := cmd.Run()
				o := ob.String()
				if err != nil || !strings.HasSuffix(o, "END\n") {
					// crashed: keep the header if any, report the crash with the first panic line
					first := ""
					for _, l := range strings.Split(eb.String(), "\n") {
						if strings.HasPrefix(l, "panic:") || strings.HasPrefix(l, "fatal error:") {
							first = l
							break
						}
					}
					hdr := fmt.Sprintf("SCN %d family=%s n=0 caps= su=0 sd=0\n", j.seed, j.fam)
					if i := strings.Index(o, "\n"); i > 0 && strings.HasPrefix(o, "SCN ") {
						hdr = o[:i+1]
					}
					o = hdr + fmt.Sprintf("EV Crash %s\nEND\n", strings.ReplaceAll(first, " ", "_"))
				}
				mu.Lock()
				w.WriteString(o)
				mu.Unlock()
			}
		}()
	}
	r := prng.New(*seed)
	for i := 0; i < *n; i++ {
		f := *family
		if f == "mixed" || f == "all" {
			f = fams[i%len(fams)]
		}
		jobs <- job{r.U64() % 1000000007, f}
	}
	close(jobs)
	wg.Wait()
	w.Flush()
}
