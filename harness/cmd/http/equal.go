package main

import (
	"encoding/hex"
	"fmt"
	"net/http"
	"os"
	"strconv"
	"strings"
	"time"

	"github.com/robbyt/go-supervisor/runnables/httpserver"
	"github.com/robbyt/go-supervisor/verif_harness/internal/prng"
)

func noop(http.ResponseWriter, *http.Request) {}

// build turns a spec into a real *httpserver.Config.  The struct literal (exported fields) is used so
// that empty route lists can be compared too; routes come from the only public constructor.
func (c cfgSpec) build() *httpserver.Config {
	rs := make(httpserver.Routes, 0, len(c.Routes))
	for _, r := range c.Routes {
		x, err := httpserver.NewRouteFromHandlerFunc(r.Name, r.Path, noop)
		if err != nil {
			panic("generator produced a route the constructor rejects: " + err.Error())
		}
		rs = append(rs, *x)
	}
	return &httpserver.Config{
		ListenAddr: c.Addr, DrainTimeout: time.Duration(c.Drain), Routes: rs,
		ReadTimeout: time.Duration(c.Read), WriteTimeout: time.Duration(c.Write), IdleTimeout: time.Duration(c.Idle),
	}
}

var eqSeen = map[string]bool{}

func emitEq(a, b cfgSpec) {
	k := a.enc() + "\t" + b.enc()
	if eqSeen[k] {
		return // only distinct pairs are emitted
	}
	eqSeen[k] = true
	r := 0
	x, y := a.build(), b.build()
	if x.Equal(y) {
		r = 1
	}
	emitLine("EQ\t%s\t%s\t%d", a.enc(), b.enc(), r)
	// Equal is a pure function in the model: it must leave both arguments as they were (address, timeouts, and the
	// routes in their order) - a live mux may be looking at them
	if ax, by := readBack(x, a), readBack(y, b); ax != a.enc() || by != b.enc() {
		emitLine("MUT\t%s\t%s\t%s\t%s", a.enc(), b.enc(), ax, by)
	}
}

// readBack encodes a *Config after a call, through its exported fields; route names (unexported) are taken from the
// spec by path (falling back to position), so a reordering shows as a different encoding.
func readBack(c *httpserver.Config, spec cfgSpec) string {
	out := cfgSpec{Addr: c.ListenAddr, Drain: int64(c.DrainTimeout), Read: int64(c.ReadTimeout), Write: int64(c.WriteTimeout),
		Idle: int64(c.IdleTimeout)}
	for i, r := range c.Routes {
		nm := ""
		if i < len(spec.Routes) && spec.Routes[i].Path == r.Path {
			nm = spec.Routes[i].Name
		} else {
			nm = "@moved"
		}
		out.Routes = append(out.Routes, rt{nm, r.Path})
	}
	return out.enc()
}

// emitRouteEq: the public Route.Equal on a pair of routes (RQ line).
func emitRouteEq(a, b rt) {
	x, err1 := httpserver.NewRouteFromHandlerFunc(a.Name, a.Path, noop)
	y, err2 := httpserver.NewRouteFromHandlerFunc(b.Name, b.Path, noop)
	if err1 != nil || err2 != nil {
		panic("generator produced a route the constructor rejects")
	}
	r := 0
	if x.Equal(*y) {
		r = 1
	}
	emitLine("RQ\t%s:%s\t%s:%s\t%d", hx(a.Name), hx(a.Path), hx(b.Name), hx(b.Path), r)
}

var eqNames = []string{"a", "b", "a b", "b c", "c"}
var eqPaths = []string{"/x", "/y", "/z"}

func allLists(univ []rt, maxLen int) [][]rt {
	res := [][]rt{{}}
	level := [][]rt{{}}
	for l := 1; l <= maxLen; l++ {
		var next [][]rt
		for _, p := range level {
			for _, u := range univ {
				q := append(append([]rt{}, p...), u)
				next = append(next, q)
			}
		}
		res = append(res, next...)
		level = next
	}
	return res
}

func baseCfg() cfgSpec {
	return cfgSpec{Addr: "127.0.0.1:8080", Drain: int64(5 * time.Second), Read: int64(time.Second),
		Write: int64(2 * time.Second), Idle: int64(3 * time.Second),
		Routes: []rt{{"r1", "/one"}, {"r2", "/two"}, {"r3", "/three"}}}
}

func routeVariants(rs []rt) map[string][]rt {
	cp := func() []rt { return append([]rt{}, rs...) }
	v := map[string][]rt{}
	v["same"] = cp()
	p := cp()
	p[0], p[1], p[2] = p[2], p[0], p[1]
	v["rotated"] = p
	p = cp()
	p[0], p[2] = p[2], p[0]
	v["reversed"] = p
	p = cp()
	p[1].Name = "r2x"
	v["renamed"] = p
	p = cp()
	p[1].Path = "/two2"
	v["repathed"] = p
	v["added"] = append(cp(), rt{"r4", "/four"})
	v["removed"] = cp()[:2]
	p = cp()
	p[2].Name = "r1"
	v["dupname"] = p
	p = cp()
	p[2].Path = "/one"
	v["duppath"] = p
	p = cp()
	p[0].Name, p[1].Name = p[1].Name, p[0].Name
	v["swappednames"] = p
	p = cp()
	p[0].Path, p[1].Path = p[1].Path, p[0].Path
	v["swappedpaths"] = p
	return v
}

var rndNames = []string{"a", "b", "c", "a b", "b c", "a b c", "a,b", "[a", "a]", "[a b]", " a", "a ", " ", "é", "名", "a\tb", "x", "y z"}
var rndPaths = []string{"/", "/x", "/y", "/x/", "/x/{id}", "/{a}", "/{b}", "GET /x", "/ü", "/x y", "/x/{p...}", "/z"}
var rndDur = []int64{0, 1, -1, int64(time.Millisecond), int64(time.Second), int64(5 * time.Second), 1<<63 - 1, -1 << 63}
var rndAddr = []string{"127.0.0.1:8080", ":8080", "localhost:8080", "127.0.0.1:8081", "", "[::1]:80"}

func rndCfg(r *prng.R) cfgSpec {
	c := cfgSpec{Addr: prng.Pick(r, rndAddr), Drain: prng.Pick(r, rndDur), Read: prng.Pick(r, rndDur),
		Write: prng.Pick(r, rndDur), Idle: prng.Pick(r, rndDur)}
	n := r.Intn(5)
	for i := 0; i < n; i++ {
		c.Routes = append(c.Routes, rt{prng.Pick(r, rndNames), prng.Pick(r, rndPaths)})
	}
	return c
}

func mutateCfg(r *prng.R, a cfgSpec) cfgSpec {
	b := a
	b.Routes = append([]rt{}, a.Routes...)
	k := r.Intn(3)
	for i := 0; i < k; i++ {
		switch r.Intn(10) {
		case 0:
			b.Addr = prng.Pick(r, rndAddr)
		case 1:
			b.Drain = prng.Pick(r, rndDur)
		case 2:
			b.Read = prng.Pick(r, rndDur)
		case 3:
			b.Write = prng.Pick(r, rndDur)
		case 4:
			b.Idle = prng.Pick(r, rndDur)
		case 5:
			if len(b.Routes) > 0 {
				b.Routes[r.Intn(len(b.Routes))].Name = prng.Pick(r, rndNames)
			}
		case 6:
			if len(b.Routes) > 0 {
				b.Routes[r.Intn(len(b.Routes))].Path = prng.Pick(r, rndPaths)
			}
		case 7:
			b.Routes = append(b.Routes, rt{prng.Pick(r, rndNames), prng.Pick(r, rndPaths)})
		case 8:
			if len(b.Routes) > 0 {
				i := r.Intn(len(b.Routes))
				b.Routes = append(b.Routes[:i:i], b.Routes[i+1:]...)
			}
		default:
			if len(b.Routes) > 0 { // duplicate an entry over another one
				b.Routes[r.Intn(len(b.Routes))] = b.Routes[r.Intn(len(b.Routes))]
			}
		}
	}
	// always finish with a random permutation half of the time
	if r.Bool() {
		for i := len(b.Routes) - 1; i > 0; i-- {
			j := r.Intn(i + 1)
			b.Routes[i], b.Routes[j] = b.Routes[j], b.Routes[i]
		}
	}
	return b
}

// decSpec is the inverse of cfgSpec.enc (used by replays).
func decSpec(s string) (cfgSpec, error) {
	f := strings.Split(s, ";")
	if len(f) != 6 {
		return cfgSpec{}, fmt.Errorf("bad config encoding %q", s)
	}
	unhex := func(x string) string { b, _ := hex.DecodeString(x); return string(b) }
	c := cfgSpec{Addr: unhex(f[0])}
	c.Drain, _ = strconv.ParseInt(f[1], 10, 64)
	c.Read, _ = strconv.ParseInt(f[2], 10, 64)
	c.Write, _ = strconv.ParseInt(f[3], 10, 64)
	c.Idle, _ = strconv.ParseInt(f[4], 10, 64)
	if f[5] != "" {
		for _, r := range strings.Split(f[5], ",") {
			np := strings.Split(r, ":")
			if len(np) != 2 {
				return c, fmt.Errorf("bad route encoding %q", r)
			}
			c.Routes = append(c.Routes, rt{unhex(np[0]), unhex(np[1])})
		}
	}
	return c, nil
}

func runEqual() {
	switch *mode {
	case "routepair": // replay: -case file with two tokens namehex:pathhex
		b, err := os.ReadFile(*caseArg)
		if err != nil {
			fmt.Fprintln(os.Stderr, err)
			os.Exit(2)
		}
		ls := strings.Fields(string(b))
		if len(ls) < 2 {
			fmt.Fprintln(os.Stderr, "routepair file needs two encoded routes")
			os.Exit(2)
		}
		dec := func(s string) rt {
			np := strings.Split(s, ":")
			if len(np) != 2 {
				fmt.Fprintln(os.Stderr, "bad route encoding", s)
				os.Exit(2)
			}
			n, _ := hex.DecodeString(np[0])
			q, _ := hex.DecodeString(np[1])
			return rt{string(n), string(q)}
		}
		emitRouteEq(dec(ls[0]), dec(ls[1]))
	case "pair": // replay: -case file with two lines, each an encoded configuration
		b, err := os.ReadFile(*caseArg)
		if err != nil {
			fmt.Fprintln(os.Stderr, err)
			os.Exit(2)
		}
		ls := strings.Fields(string(b))
		if len(ls) < 2 {
			fmt.Fprintln(os.Stderr, "pair file needs two encoded configurations")
			os.Exit(2)
		}
		x, e1 := decSpec(ls[0])
		y, e2 := decSpec(ls[1])
		if e1 != nil || e2 != nil {
			fmt.Fprintln(os.Stderr, e1, e2)
			os.Exit(2)
		}
		emitEq(x, y)
	case "exhaustive":
		var univ []rt
		for _, n := range eqNames {
			for _, p := range eqPaths {
				univ = append(univ, rt{n, p})
			}
		}
		ls := allLists(univ, *maxLen)
		a, b := baseCfg(), baseCfg()
		for _, x := range ls {
			for _, y := range ls {
				a.Routes, b.Routes = x, y
				emitEq(a, b)
			}
		}
	case "fields":
		// Route.Equal on every pair over the random pools (names x paths)
		var rs []rt
		for _, n := range rndNames {
			for _, p := range rndPaths {
				rs = append(rs, rt{n, p})
			}
		}
		for i, x := range rs {
			for j, y := range rs {
				if i == j || x.Name == y.Name || x.Path == y.Path || (i*31+j)%17 == 0 {
					emitRouteEq(x, y)
				}
			}
		}
		a := baseCfg()
		vs := routeVariants(a.Routes)
		for mask := 0; mask < 32; mask++ {
			for _, base := range []string{"same", "duppath", "dupname"} {
				a.Routes = vs[base]
				for _, v := range vs {
					b := a
					b.Routes = v
					if mask&1 != 0 {
						b.Addr = "127.0.0.1:8081"
					}
					if mask&2 != 0 {
						b.Drain++
					}
					if mask&4 != 0 {
						b.Read--
					}
					if mask&8 != 0 {
						b.Write = 0
					}
					if mask&16 != 0 {
						b.Idle = -b.Idle
					}
					emitEq(a, b)
					emitEq(b, a)
				}
			}
		}
	case "random":
		r := prng.New(*seed)
		for i := 0; i < *count; i++ {
			a := rndCfg(r)
			emitEq(a, mutateCfg(r, a))
		}
	}
}
