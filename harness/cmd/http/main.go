// http is the single correspondence driver for the HTTP-server-runner properties
// C12, C13, C14 and C19.  Families (selected by -family):
//
//	equal        C13 check A: Config.Equal differential; prints EQ lines for ocaml/http.ml
//	hist         C12/C13 check B: reload histories against the real runner; prints H lines
//	             (event traces for the extracted acceptor) and PROP lines (property verdicts
//	             computed directly on the implementation's observables)
//	drain        C14: timed drain scenarios; prints DR lines
//	crash        C19: grammar of accepted constructor values, each driven through Run, Reload
//	             and one request in a CHILD PROCESS; prints CR lines
//	crash-child  (internal) runs one C19 case read from stdin
//
// All randomness comes from internal/prng seeded by -seed.  No fixed ports are used.
package main

import (
	"bufio"
	"encoding/hex"
	"flag"
	"fmt"
	"net"
	"os"
	"strings"
	"sync"
)

var (
	family  = flag.String("family", "", "equal|hist|drain|crash|crash-child")
	mode    = flag.String("mode", "", "family-specific mode")
	seed    = flag.Uint64("seed", 1, "PRNG seed")
	count   = flag.Int("n", 10, "number of generated cases")
	maxLen  = flag.Int("len", 2, "equal: maximal route-list length of the exhaustive part")
	jobs    = flag.Int("j", 4, "crash/drain: number of concurrent cases")
	caseArg = flag.String("case", "", "hist/drain/crash: run only this case (replay); a JSON file")
	detail  = flag.String("detail", "", "file receiving per-case JSON details (replays)")
	only    = flag.String("only", "", "hist: only scripts whose name contains this")
	verbose = flag.Bool("v", false, "verbose")
	repeat  = flag.Int("repeat", 1, "hist: run every selected script this many times")
)

var outMu sync.Mutex
var out = bufio.NewWriterSize(os.Stdout, 1<<20)

func emitLine(format string, args ...any) {
	outMu.Lock()
	fmt.Fprintf(out, format, args...)
	out.WriteByte('\n')
	outMu.Unlock()
}

func hx(s string) string { return hex.EncodeToString([]byte(s)) }

// freeAddrs asks the OS for n distinct free loopback ports (bind :0, read, release).
func freeAddrs(n int) []string {
	var ls []net.Listener
	var as []string
	for i := 0; i < n; i++ {
		l, err := net.Listen("tcp", "127.0.0.1:0")
		if err != nil {
			panic(err)
		}
		ls = append(ls, l)
		as = append(as, l.Addr().String())
	}
	for _, l := range ls {
		l.Close()
	}
	return as
}

type rt struct {
	Name string `json:"name"`
	Path string `json:"path"`
}

type cfgSpec struct {
	Addr   string `json:"addr"`
	Drain  int64  `json:"drain"`
	Read   int64  `json:"read"`
	Write  int64  `json:"write"`
	Idle   int64  `json:"idle"`
	Routes []rt   `json:"routes"`
}

// enc is the line encoding of a configuration shared with ocaml/http.ml:
// addrhex;drain;read;write;idle;namehex:pathhex,namehex:pathhex
func (c cfgSpec) enc() string {
	var rs []string
	for _, r := range c.Routes {
		rs = append(rs, hx(r.Name)+":"+hx(r.Path))
	}
	return fmt.Sprintf("%s;%d;%d;%d;%d;%s", hx(c.Addr), c.Drain, c.Read, c.Write, c.Idle, strings.Join(rs, ","))
}

func main() {
	flag.Parse()
	defer out.Flush()
	switch *family {
	case "equal":
		runEqual()
	case "hist":
		runHist()
	case "drain":
		runDrain()
	case "crash":
		runCrash()
	case "crash-child":
		crashChild()
	default:
		fmt.Fprintln(os.Stderr, "unknown -family")
		os.Exit(2)
	}
}
