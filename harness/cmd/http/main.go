// http is the single correspondence driver for the HTTP-server-runner properties
// C12, C13, C14 and C19.  Families (selected by -family):
//
//	equal        C13 check A: Config.Equal differential; prints EQ lines for ocaml/http.ml
//	hist         C12/C13 check B: reload histories against the real runner; prints H lines
//	             (event traces for the extracted acceptor) and PROP lines (property verdicts
//	             computed directly on the implementation's observables)
//	drain        C14: timed drain scenarios; prints DR lines
//	crash        C19: grammar of accepted constructor values, each driven through Run, Reload
//	             and one request in a CHILD PROCESS; prints CR lines
//	crash-child  (internal) runs one C19 case read from stdin
//
// All randomness comes from internal/prng seeded by -seed.  No fixed ports are used.
package main

import (
	"bufio"
	"encoding/hex"
	"flag"
	"fmt"
	"net"
	"os"
	"strings"
	"sync"
	"time"
)

var (
	family  = flag.String("family", "", "equal|hist|drain|crash|crash-child")
	mode    = flag.String("mode", "", "family-specific mode")
	seed    = flag.Uint64("seed", 1, "PRNG seed")
	count   = flag.Int("n", 10, "number of generated cases")
	maxLen  = flag.Int("len", 2, "equal: maximal route-list length of the exhaustive part")
	jobs    = flag.Int("j", 4, "crash/drain: number of concurrent cases")
	caseArg = flag.String("case", "", "hist/drain/crash: run only this case (replay); a JSON file")
	detail  = flag.String("detail", "", "file receiving per-case JSON details (replays)")
	only    = flag.String("only", "", "hist: only scripts whose name contains this")
	verbose = flag.Bool("v", false, "verbose")
	repeat  = flag.Int("repeat", 1, "hist: run every selected script this many times")
)

var outMu sync.Mutex
var out = bufio.NewWriterSize(os.Stdout, 1<<20)

func emitLine(format string, args ...any) {
	outMu.Lock()
	fmt.Fprintf(out, format, args...)
	out.WriteByte('\n')
	outMu.Unlock()
}

func hx(s string) string { return hex.EncodeToString([]byte(s)) }

// freeAddrs returns n distinct free loopback addresses.  Ports are NOT fixed.  Every harness process claims a
// private slice of 44 ports below the kernel's ephemeral range (a lock file per slice, stale ones recognised by a
// dead pid) and hands them out in rotation, each probed by binding.  Ports obtained from ":0" come from the
// ephemeral range, which every other test process on the machine (and every outgoing connection) draws from
// as well: a port reserved there and released is taken by someone else before, or while, the runner uses it -
// and two harness processes drawing at random from one range collide with each other the same way.
func freeAddrs(n int) []string {
	portPool.once.Do(claimSlice)
	var as []string
	portPool.mu.Lock()
	defer portPool.mu.Unlock()
	for tries := 0; len(as) < n && tries < 4*sliceSize && portPool.base > 0; tries++ {
		p := portPool.base + portPool.next%sliceSize
		portPool.next++
		a := fmt.Sprintf("127.0.0.1:%d", p)
		l, err := net.Listen("tcp", a)
		if err != nil {
			continue
		}
		l.Close()
		as = append(as, a)
	}
	for len(as) < n { // no slice could be claimed: fall back to the OS
		l, err := net.Listen("tcp", "127.0.0.1:0")
		if err != nil {
			panic(err)
		}
		as = append(as, l.Addr().String())
		l.Close()
	}
	return as
}

const (
	sliceSize = 44
	sliceBase = 10000
	slices    = 500 // 10000 .. 31999, below the default ephemeral range 32768..60999
	sliceDir  = "/tmp/verif-http-ports"
)

var portPool struct {
	once sync.Once
	mu   sync.Mutex
	base int
	next int
	file string
}

func claimSlice() {
	lo := 32768
	if b, err := os.ReadFile("/proc/sys/net/ipv4/ip_local_port_range"); err == nil {
		var a, z int
		if _, err := fmt.Sscan(string(b), &a, &z); err == nil {
			lo = a
		}
	}
	os.MkdirAll(sliceDir, 0o777)
	start := os.Getpid() % slices
	for i := 0; i < slices; i++ {
		k := (start + i) % slices
		if sliceBase+(k+1)*sliceSize > lo {
			continue
		}
		name := fmt.Sprintf("%s/slice-%03d", sliceDir, k)
		for attempt := 0; attempt < 2; attempt++ {
			f, err := os.OpenFile(name, os.O_CREATE|os.O_EXCL|os.O_WRONLY, 0o666)
			if err == nil {
				fmt.Fprintf(f, "%d\n", os.Getpid())
				f.Close()
				portPool.base, portPool.file = sliceBase+k*sliceSize, name
				portPool.next = int(time.Now().UnixNano() % sliceSize)
				return
			}
			// taken: by a live process?
			b, rerr := os.ReadFile(name)
			var pid int
			if rerr == nil {
				fmt.Sscan(string(b), &pid)
			}
			if pid > 0 {
				if _, serr := os.Stat(fmt.Sprintf("/proc/%d", pid)); serr == nil {
					break // alive: next slice
				}
			}
			os.Remove(name) // stale (owner gone, or unreadable): try once more
		}
	}
}

func releaseSlice() {
	if portPool.file != "" {
		os.Remove(portPool.file)
	}
}

type rt struct {
	Name string `json:"name"`
	Path string `json:"path"`
}

type cfgSpec struct {
	Addr   string `json:"addr"`
	Drain  int64  `json:"drain"`
	Read   int64  `json:"read"`
	Write  int64  `json:"write"`
	Idle   int64  `json:"idle"`
	Routes []rt   `json:"routes"`
}

// enc is the line encoding of a configuration shared with ocaml/http.ml:
// addrhex;drain;read;write;idle;namehex:pathhex,namehex:pathhex
func (c cfgSpec) enc() string {
	var rs []string
	for _, r := range c.Routes {
		rs = append(rs, hx(r.Name)+":"+hx(r.Path))
	}
	return fmt.Sprintf("%s;%d;%d;%d;%d;%s", hx(c.Addr), c.Drain, c.Read, c.Write, c.Idle, strings.Join(rs, ","))
}

func main() {
	flag.Parse()
	defer out.Flush()
	defer releaseSlice()
	switch *family {
	case "equal":
		runEqual()
	case "hist":
		runHist()
	case "drain":
		runDrain()
	case "crash":
		runCrash()
	case "crash-child":
		crashChild()
	default:
		fmt.Fprintln(os.Stderr, "unknown -family")
		os.Exit(2)
	}
}
