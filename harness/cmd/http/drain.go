package main

func runDrain() {}
