package main

// C14: graceful drain honoured and bounded by DrainTimeout.  Real http.Server, real clock.
// k concurrent handlers sleep d_i ignoring their context; when all of them are inside their handler the
// stop trigger fires (Stop(), cancel or DEADLINE of the context given to Run(), a Stop() shortly before such a deadline, or a
// Reload with a changed configuration).  Observed: the
// duration of the trigger call, whether the drain-timeout error was reported, and per request whether its
// full response had arrived when the trigger returned.  This is the only family that compares wall-clock
// durations; the bands are computed by the model (HttpDrain.drain_check) from drain, the remaining
// durations, the polling gap of http.Server.Shutdown, band (40 ms) and slack (150 ms).

import (
	"context"
	"encoding/json"
	"errors"
	"fmt"
	"io"
	"log/slog"
	"math"
	"net/http"
	"os"
	"sort"
	"strconv"
	"strings"
	"sync"
	"sync/atomic"
	"time"

	"github.com/robbyt/go-supervisor/runnables/httpserver"
	"github.com/robbyt/go-supervisor/verif_harness/internal/prng"
)

const (
	drainBand  = 40
	drainSlack = 150
	bodySize   = 8192
)

var errPortTaken = errors.New("the reserved port was taken by another process")

// errLate: the runner was not Running early enough before the deadline of Run's context (loaded machine): the case is run again
var errLate = errors.New("the runner was not ready in time before the deadline of Run's context")

type drainCase struct {
	ID       string `json:"id"`
	DrainMs  int    `json:"drain_ms"`
	NewDrain int    `json:"new_drain_ms,omitempty"` // reload trigger: DrainTimeout of the NEW configuration (0 = same)
	Ds       []int  `json:"ds"`
	// Trigger: stop | cancel | reload | deadline (the context given to Run() carries a DEADLINE - context.WithDeadline -
	// and its expiry, with the requests in flight, is what ends Run) | stopnear (Run's context carries a deadline and
	// Stop() is called 40 ms before it expires).  Whatever ends the context, the drain bound is DrainTimeout.
	Trigger string `json:"trigger"`
	// PreReload: before the requests are fired the server is replaced once by an effective Reload (changed read
	// timeout), so that the server being drained is one that Reload booted, not the one Run booted
	PreReload bool `json:"pre_reload,omitempty"`
}

type drainObs struct {
	Case      drainCase `json:"case"`
	Rem       []int     `json:"remaining_ms"`
	OK        bool      `json:"ok"`
	T         int       `json:"t_ms"`
	Flags     []bool    `json:"completed"`
	Full      []bool    `json:"full_body"`
	DialAfter bool      `json:"dial_during_drain"`
	Gap       int       `json:"gap"`
	Err       string    `json:"err"`
	IdleStop  float64   `json:"overhead_ms"` // t - max(remaining) for ok outcomes (calibration)
}

func runDrainCase(c drainCase) (drainObs, error) {
	obs := drainObs{Case: c}
	addr := freeAddrs(1)[0]
	var entered atomic.Int64
	entry := make([]time.Time, len(c.Ds))
	var emu sync.Mutex
	payload := strings.Repeat("x", bodySize)
	rt1, err := httpserver.NewRouteFromHandlerFunc("w", "/w", func(w http.ResponseWriter, q *http.Request) {
		id, _ := strconv.Atoi(q.URL.Query().Get("id"))
		ms, _ := strconv.Atoi(q.URL.Query().Get("sleep"))
		emu.Lock()
		entry[id] = time.Now()
		emu.Unlock()
		entered.Add(1)
		time.Sleep(time.Duration(ms) * time.Millisecond) // ignores q.Context()
		w.Header().Set("Content-Length", strconv.Itoa(bodySize))
		io.WriteString(w, payload)
	})
	if err != nil {
		return obs, err
	}
	var shutRet atomic.Int64 // unix nanos of the first Shutdown return of the measured phase
	var measuring atomic.Bool // false while the preparatory Reload replaces the server
	var shutCalls atomic.Int64
	shutCalled := make(chan struct{})
	var shutOnce sync.Once
	creator := func(a string, h http.Handler, cfg *httpserver.Config) httpserver.HttpServer {
		return &timedSrv{inner: httpserver.DefaultServerCreator(a, h, cfg), ret: &shutRet, on: &measuring, calls: &shutCalls,
			called: func() { shutOnce.Do(func() { close(shutCalled) }) }}
	}
	mk := func(drain int, read time.Duration) *httpserver.Config {
		cfg, err := httpserver.NewConfig(addr, httpserver.Routes{*rt1},
			httpserver.WithDrainTimeout(time.Duration(drain)*time.Millisecond), httpserver.WithReadTimeout(read),
			httpserver.WithServerCreator(creator))
		if err != nil {
			panic(err)
		}
		return cfg
	}
	var cur atomic.Pointer[httpserver.Config]
	cur.Store(mk(c.DrainMs, 5*time.Second))
	runner, err := httpserver.NewRunner(httpserver.WithConfigCallback(func() (*httpserver.Config, error) { return cur.Load(), nil }),
		httpserver.WithLogHandler(slog.DiscardHandler))
	if err != nil {
		return obs, err
	}
	ctx, cancel := context.WithCancel(context.Background())
	var ctxDeadline time.Time
	if c.Trigger == "deadline" || c.Trigger == "stopnear" {
		cancel()
		lead := 1500 * time.Millisecond
		if c.PreReload {
			lead = 2500 * time.Millisecond
		}
		ctxDeadline = time.Now().Add(lead)
		ctx, cancel = context.WithDeadline(context.Background(), ctxDeadline)
	}
	defer cancel()
	runRes := make(chan error, 1)
	go func() { runRes <- runner.Run(ctx) }()
	deadline := time.Now().Add(8 * time.Second)
	for !runner.IsRunning() {
		select {
		case err := <-runRes:
			if err != nil && strings.Contains(err.Error(), "address already in use") {
				return obs, errPortTaken
			}
			return obs, fmt.Errorf("Run returned before Running: %v", err)
		default:
		}
		if time.Now().After(deadline) {
			return obs, fmt.Errorf("runner did not reach Running: %s", runner.GetState())
		}
		time.Sleep(time.Millisecond)
	}
	if c.PreReload {
		cur.Store(mk(c.DrainMs, 7*time.Second))
		runner.Reload(context.Background())
		if st := runner.GetState(); st != "Running" {
			return obs, fmt.Errorf("preparatory Reload did not return with Running: %s", st)
		}
	}
	if !ctxDeadline.IsZero() {
		// the requests are fired shortly before the deadline of Run's context, so that what they still need when the
		// context ends is close to their nominal duration
		before := 60 * time.Millisecond
		if c.Trigger == "stopnear" {
			before = 100 * time.Millisecond
		}
		if time.Until(ctxDeadline) < before+30*time.Millisecond {
			return obs, errLate
		}
		time.Sleep(time.Until(ctxDeadline) - before)
	}
	measuring.Store(true)
	// fire the requests
	done := make([]time.Time, len(c.Ds))
	full := make([]bool, len(c.Ds))
	var wg sync.WaitGroup
	for i, d := range c.Ds {
		wg.Add(1)
		go func(i, d int) {
			defer wg.Done()
			cl := &http.Client{Transport: &http.Transport{DisableKeepAlives: true}, Timeout: 10 * time.Second}
			resp, err := cl.Get(fmt.Sprintf("http://%s/w?id=%d&sleep=%d", addr, i, d))
			if err != nil {
				return
			}
			b, err := io.ReadAll(resp.Body)
			resp.Body.Close()
			emu.Lock()
			if err == nil && resp.StatusCode == 200 && len(b) == bodySize {
				full[i] = true
				done[i] = time.Now()
			}
			emu.Unlock()
		}(i, d)
	}
	for entered.Load() < int64(len(c.Ds)) {
		if time.Now().After(deadline) {
			return obs, errors.New("requests did not reach their handlers")
		}
		time.Sleep(200 * time.Microsecond)
	}
	effDrain := c.DrainMs
	if effDrain < 0 {
		effDrain = 0 // a non-positive DrainTimeout is an already expired shutdown context: do not wait
	}
	switch c.Trigger {
	case "deadline":
		if time.Until(ctxDeadline) < 5*time.Millisecond {
			return obs, errLate
		}
		time.Sleep(time.Until(ctxDeadline))
	case "stopnear":
		if time.Until(ctxDeadline) < 45*time.Millisecond {
			return obs, errLate
		}
		time.Sleep(time.Until(ctxDeadline) - 40*time.Millisecond)
	}
	t0 := time.Now()
	if c.Trigger == "deadline" {
		t0 = ctxDeadline
	}
	trigDone := make(chan struct{})
	var trigRet atomic.Int64 // the instant the trigger call returned, taken in its own goroutine
	fin := func() { trigRet.Store(time.Now().UnixNano()); close(trigDone) }
	switch c.Trigger {
	case "stop", "stopnear":
		go func() { runner.Stop(); fin() }()
	case "cancel":
		cancel()
		go func() { err := <-runRes; runRes <- err; fin() }()
	case "deadline": // nothing to call: the deadline of Run's context has just expired
		go func() { err := <-runRes; runRes <- err; fin() }()
	case "reload":
		nd := c.DrainMs
		if c.NewDrain > 0 {
			nd = c.NewDrain
			effDrain = nd // stopServer reads DrainTimeout from r.config, which already holds the NEW configuration
			if effDrain < 0 {
				effDrain = 0
			}
		}
		cur.Store(mk(nd, 6*time.Second))
		go func() { runner.Reload(context.Background()); fin() }()
	}
	// C14_no_new: once Shutdown has been CALLED (observed by the wrapper) a dial must be refused.  20 ms are
	// left for the call to reach closeListeners under load.
	dialChecked := false
	if len(c.Ds) > 0 {
		select {
		case <-shutCalled:
			time.Sleep(20 * time.Millisecond)
			// on a Reload the NEW server binds the same address as soon as the old Shutdown has returned
			skip := c.Trigger == "reload" && shutRet.Load() != 0
			if !skip {
				obs.DialAfter = dialOK(addr)
				dialChecked = true
			}
		case <-time.After(time.Second):
		}
	}
	select {
	case <-trigDone:
	case <-time.After(15 * time.Second):
		return obs, errors.New("trigger did not return within 15 s")
	}
	t1 := time.Unix(0, trigRet.Load())
	if c.Trigger == "reload" && shutRet.Load() != 0 {
		// a Reload goes on to boot the new server (>= one 100 ms probe tick): the drain ends when the old
		// server's Shutdown returns
		t1 = time.Unix(0, shutRet.Load())
	}
	obs.T = int(t1.Sub(t0).Milliseconds())
	switch c.Trigger {
	case "reload":
		st := runner.GetState()
		obs.OK = st == "Running"
		obs.Err = "state " + st
	default:
		err := <-runRes
		runRes <- err
		obs.OK = err == nil
		if err != nil {
			obs.Err = err.Error()
			if !errors.Is(err, httpserver.ErrGracefulShutdownTimeout) {
				return obs, fmt.Errorf("Run returned an error that is not the graceful-shutdown timeout: %w", err)
			}
		}
	}
	time.Sleep(25 * time.Millisecond) // let client goroutines that were served just before t1 record it
	emu.Lock()
	maxRem := 0
	for i, d := range c.Ds {
		rem := d - int(t0.Sub(entry[i]).Milliseconds()) - 1
		if rem < 0 {
			rem = 0
		}
		obs.Rem = append(obs.Rem, rem)
		if rem > maxRem {
			maxRem = rem
		}
		obs.Flags = append(obs.Flags, full[i] && !done[i].After(t1.Add(20*time.Millisecond)))
		obs.Full = append(obs.Full, full[i])
	}
	emu.Unlock()
	obs.Gap = int(math.Ceil(1.1*float64(maxRem+drainBand+1))) + 2
	if obs.OK {
		obs.IdleStop = float64(t1.Sub(t0).Microseconds())/1000 - float64(maxRem)
	}
	// clean up
	if c.Trigger == "reload" {
		go runner.Stop()
	}
	wg.Wait() // requests that outlast the drain still finish: Shutdown does not close active connections
	select {
	case <-runRes:
	case <-time.After(10 * time.Second):
	}
	var ds, fl []string
	for i := range obs.Rem {
		ds = append(ds, strconv.Itoa(obs.Rem[i]))
		if obs.Flags[i] {
			fl = append(fl, "1")
		} else {
			fl = append(fl, "0")
		}
	}
	okS := "0"
	if obs.OK {
		okS = "1"
	}
	emitLine("DR\t%s\t%d\t%d\t%d\t%d\t%s\t%s\t%d\t%s\t%s", c.ID, effDrain, obs.Gap, drainBand, drainSlack,
		strings.Join(ds, ","), okS, obs.T, strings.Join(fl, ","), c.Trigger)
	// the trigger must have reached http.Server.Shutdown of the server being drained (a stop that skips it returns
	// at once, leaves the listener open and reports nothing)
	{
		v := "ok"
		if shutCalls.Load() == 0 {
			v = "FAIL"
		}
		emitLine("PROP\t%s\tc14-shutdown-called %s Shutdown calls on the drained server during the trigger=%d", c.ID, v, shutCalls.Load())
	}
	// property predicates directly on the observables
	if dialChecked {
		v := "ok"
		if obs.DialAfter {
			v = "FAIL"
		}
		emitLine("PROP\t%s\tc14-no-new %s dial %d ms after Shutdown was called succeeded=%v", c.ID, v, 20, obs.DialAfter)
	}
	for i, rem := range obs.Rem {
		if rem+drainBand < effDrain {
			v := "ok"
			if !obs.Flags[i] {
				v = "FAIL"
			}
			emitLine("PROP\t%s\tc14-complete %s request %d (remaining %d ms < drain %d ms) full response before the trigger returned=%v",
				c.ID, v, i, rem, effDrain, obs.Flags[i])
		}
	}
	{
		v := "ok"
		if obs.T > effDrain+drainSlack {
			v = "FAIL"
		}
		emitLine("PROP\t%s\tc14-bounded %s trigger returned after %d ms (drain %d ms + %d ms slack)", c.ID, v, obs.T, effDrain, drainSlack)
		if maxRem > effDrain+drainBand {
			v = "ok"
			if obs.OK {
				v = "FAIL"
			}
			emitLine("PROP\t%s\tc14-timeout-reported %s a request outlasts the drain (%d > %d) and the timeout error was reported=%v",
				c.ID, v, maxRem, effDrain, !obs.OK)
		}
		if maxRem+drainBand+obs.Gap < effDrain {
			v = "ok"
			if !obs.OK || obs.T > maxRem+drainBand+obs.Gap+drainSlack {
				v = "FAIL"
			}
			emitLine("PROP\t%s\tc14-prompt %s all requests finish by %d ms << drain %d ms; returned ok=%v after %d ms (bound %d)",
				c.ID, v, maxRem, effDrain, obs.OK, obs.T, maxRem+drainBand+obs.Gap+drainSlack)
		}
	}
	return obs, nil
}

// timedSrv records when the first Shutdown of a history returned.
type timedSrv struct {
	inner  httpserver.HttpServer
	ret    *atomic.Int64
	on     *atomic.Bool
	calls  *atomic.Int64
	called func()
}

func (s *timedSrv) ListenAndServe() error { return s.inner.ListenAndServe() }
func (s *timedSrv) Shutdown(ctx context.Context) error {
	if !s.on.Load() {
		return s.inner.Shutdown(ctx)
	}
	s.calls.Add(1)
	s.called()
	err := s.inner.Shutdown(ctx)
	s.ret.CompareAndSwap(0, time.Now().UnixNano())
	return err
}

func drainGrid(r *prng.R, n int, quick bool) []drainCase {
	var cs []drainCase
	drains := []int{20, 60, 150, 300}
	trigs := []string{"stop", "cancel", "reload"}
	add := func(dr int, ds []int, tr string) {
		cs = append(cs, drainCase{DrainMs: dr, Ds: ds, Trigger: tr})
	}
	for _, dr := range drains {
		for ti, tr := range trigs {
			add(dr, nil, tr)                           // idle server
			add(dr, []int{dr / 4}, tr)                 // one short request
			add(dr, []int{dr*2 + 120}, tr)             // one request that outlasts the drain
			if !quick || ti == 0 {
				add(dr, []int{dr / 5, dr / 3}, tr)                 // several short ones
				add(dr, []int{dr - 15, dr + 15}, tr)               // boundary band
				add(dr, []int{dr / 4, dr*2 + 100, dr / 2, dr}, tr) // mixed, k = 4
			}
		}
	}
	// the drained server was booted by a Reload, not by Run (the shutdown guard must have been re-armed for it)
	for ti, tr := range trigs {
		cs = append(cs, drainCase{DrainMs: 150, Ds: []int{40}, Trigger: tr, PreReload: true})
		cs = append(cs, drainCase{DrainMs: 150, Ds: []int{400}, Trigger: tr, PreReload: true})
		if !quick || ti == 0 {
			cs = append(cs, drainCase{DrainMs: 300, Ds: []int{80, 700}, Trigger: tr, PreReload: true})
		}
	}
	// DrainTimeout <= 0 (accepted by NewConfig): do not wait at all, report the deadline
	for ti, tr := range trigs {
		cs = append(cs, drainCase{DrainMs: 0, Ds: []int{300}, Trigger: tr})
		if !quick || ti == 0 {
			cs = append(cs, drainCase{DrainMs: -1, Ds: []int{300, 60}, Trigger: tr})
			cs = append(cs, drainCase{DrainMs: 0, Ds: nil, Trigger: tr})
		}
	}
	// Run's context carries a DEADLINE: its expiry as the stop trigger, and a Stop() 40 ms before it - the drain bound is
	// DrainTimeout whatever ends the context (short request: completes, nil; long one: timeout at DrainTimeout; idle: nil)
	for di, dr := range []int{150, 300} {
		cs = append(cs, drainCase{DrainMs: dr, Ds: []int{dr / 3}, Trigger: "deadline"})
		cs = append(cs, drainCase{DrainMs: dr, Ds: []int{dr*2/3 + 50}, Trigger: "stopnear"})
		if !quick || di == 1 {
			cs = append(cs, drainCase{DrainMs: dr, Ds: []int{dr*2 + 120}, Trigger: "deadline"})
			cs = append(cs, drainCase{DrainMs: dr, Ds: nil, Trigger: "deadline"})
			cs = append(cs, drainCase{DrainMs: dr, Ds: []int{dr / 4, dr*2 + 100}, Trigger: "stopnear"})
			cs = append(cs, drainCase{DrainMs: dr, Ds: []int{dr / 3}, Trigger: "deadline", PreReload: true})
		}
	}
	// a long drain with short requests: Stop must NOT wait out the timeout
	add(1000, []int{80}, "stop")
	add(1000, []int{40, 120}, "reload")
	// reload that changes the drain timeout itself
	cs = append(cs, drainCase{DrainMs: 300, NewDrain: 40, Ds: []int{150}, Trigger: "reload"})
	cs = append(cs, drainCase{DrainMs: 40, NewDrain: 300, Ds: []int{150}, Trigger: "reload"})
	for i := 0; i < n; i++ {
		dr := 20 + r.Intn(281)
		k := r.Intn(5)
		var ds []int
		for j := 0; j < k; j++ {
			switch r.Intn(3) {
			case 0:
				ds = append(ds, 1+r.Intn(dr/2+1))
			case 1:
				ds = append(ds, dr-35+r.Intn(70))
			default:
				ds = append(ds, dr+60+r.Intn(dr+100))
			}
			if ds[j] < 1 {
				ds[j] = 1
			}
		}
		c := drainCase{DrainMs: dr, Ds: ds, Trigger: prng.Pick(r, trigs), PreReload: r.Chance(1, 4)}
		if r.Chance(1, 6) {
			c.Trigger = prng.Pick(r, []string{"deadline", "stopnear"})
		}
		if r.Chance(1, 12) {
			c.DrainMs = -r.Intn(2)
			c.PreReload = false // with DrainTimeout <= 0 every effective Reload ends in Error (its stopServer times out)
		}
		cs = append(cs, c)
	}
	for i := range cs {
		cs[i].ID = fmt.Sprintf("d%04d", i)
	}
	return cs
}

func runDrain() {
	var cases []drainCase
	if *caseArg != "" {
		b, err := os.ReadFile(*caseArg)
		if err != nil {
			fmt.Fprintln(os.Stderr, err)
			os.Exit(2)
		}
		var c drainCase
		var w struct {
			Case drainCase `json:"case"`
		}
		if json.Unmarshal(b, &w) == nil && w.Case.Trigger != "" {
			c = w.Case
		} else if err := json.Unmarshal(b, &c); err != nil {
			fmt.Fprintln(os.Stderr, "bad case file:", err)
			os.Exit(2)
		}
		cases = []drainCase{c}
	} else {
		cases = drainGrid(prng.New(*seed), *count, *mode == "quick")
	}
	var df *os.File
	if *detail != "" {
		df, _ = os.Create(*detail)
		defer df.Close()
	}
	sem := make(chan struct{}, *jobs)
	var wg sync.WaitGroup
	var mu sync.Mutex
	var overhead []float64
	for _, c := range cases {
		c := c
		wg.Add(1)
		sem <- struct{}{}
		go func() {
			defer wg.Done()
			defer func() { <-sem }()
			obs, err := runDrainCase(c)
			for try := 0; err != nil && (errors.Is(err, errPortTaken) || errors.Is(err, errLate)) && try < 3; try++ {
				obs, err = runDrainCase(c) // another process took the reserved port: new port, same case
			}
			mu.Lock()
			defer mu.Unlock()
			if err != nil {
				emitLine("DERR\t%s\t%v", c.ID, err)
			}
			if obs.OK {
				overhead = append(overhead, obs.IdleStop)
			}
			if df != nil {
				b, _ := json.Marshal(obs)
				df.Write(append(b, '\n'))
			}
		}()
	}
	wg.Wait()
	// calibration data for the evidence: distribution of (Stop duration - longest remaining request) over ok outcomes
	sort.Float64s(overhead)
	if n := len(overhead); n > 0 {
		emitLine("CAL\tn=%d p50=%.1f p90=%.1f p99=%.1f max=%.1f jobs=%d band=%d slack=%d", n, overhead[n/2], overhead[n*9/10],
			overhead[n*99/100], overhead[n-1], *jobs, drainBand, drainSlack)
	}
}
