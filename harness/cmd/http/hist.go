package main

// C12/C13 check B: reload histories against the real httpserver.Runner.
//
// One history = a script of environment actions (run, reload with a chosen callback result, stop,
// cancel, foreign bind/free, slow request), optionally parking the reloading goroutine on a log record
// (director.ParkHandler through the public WithLogHandler option) and acting while it is parked.
// Everything that crosses the boundary is recorded in one mutex-ordered log: API calls/returns, the
// configuration callback, server creations through the public ServerCreator hook, ListenAndServe /
// Shutdown of the created servers (a recording wrapper around the real http.Server, or around a fake that
// really binds a loopback listener but serves nothing), and the director's observations (state, dials,
// one request per route).  The log is printed as an "H" line for the extracted acceptor; the property
// predicates are also evaluated directly on the observables and printed as "PROP" lines.

import (
	"context"
	"encoding/hex"
	"encoding/json"
	"errors"
	"fmt"
	"io"
	"net"
	"net/http"
	"net/http/httptest"
	"os"
	"strconv"
	"strings"
	"sync"
	"sync/atomic"
	"time"

	"github.com/robbyt/go-supervisor/runnables/httpserver"
	"github.com/robbyt/go-supervisor/verif_harness/internal/director"
	"github.com/robbyt/go-supervisor/verif_harness/internal/prng"
)

type hstep struct {
	Op     string `json:"op"`               // run|reload|stop|cancel|fbind|ffree|slowreq|wait
	Cfg    string `json:"cfg,omitempty"`    // reload: same|perm|addr|routes|timeout|drain|back|err|nil|busy
	Park   string `json:"park,omitempty"`   // reload: park the reloader on this log message
	During string `json:"during,omitempty"` // while parked: stop|cancel|reload2|slowstop
	Ms     int    `json:"ms,omitempty"`
}

type hscript struct {
	Name  string  `json:"name"`
	Kind  string  `json:"kind"` // real|fake
	Steps []hstep `json:"steps"`
	// Init: the route list of the initial configuration, in THIS order (default n1:/r1, n2:/r2).  Lists that are not
	// in path order matter: the initial configuration is the only one that reaches the runner without having been an
	// argument of Config.Equal first.
	Init []rt `json:"init,omitempty"`
}

var stateCode = map[string]int{"New": 0, "Booting": 1, "Running": 2, "Reloading": 3, "Stopping": 4, "Stopped": 5, "Error": 6, "Unknown": 7}

var pathUniverse = []string{"/r1", "/r2", "/r3", "/r4"}

type wrapSrv struct {
	h       *hist
	sid     int
	inner   httpserver.HttpServer
	cfg     int
	lasDone atomic.Bool // ListenAndServe has returned: this server holds no listener any more
	lasCall atomic.Bool // ListenAndServe has been entered
}

func (w *wrapSrv) ListenAndServe() error {
	w.lasCall.Store(true)
	err := w.inner.ListenAndServe()
	w.lasDone.Store(true)
	if err == nil || errors.Is(err, http.ErrServerClosed) {
		w.h.rec.Emit("LX%d", w.sid)
	} else {
		// a bind failure on an address the harness did not pre-bind itself: another process on this machine took
		// the port between its reservation and its use (environment noise, not behaviour of the runner)
		w.h.mu.Lock()
		a := w.h.cfgs[w.cfg].Addr
		if !w.h.foreignNow[a] {
			w.h.envNoise = fmt.Sprintf("unexpected bind failure of server %d on %s: %v", w.sid, a, err)
		}
		w.h.mu.Unlock()
		w.h.rec.Emit("LF%d", w.sid)
	}
	return err
}

func (w *wrapSrv) Shutdown(ctx context.Context) error {
	w.h.rec.Emit("SH%d", w.sid)
	w.h.shutdowns.Add(1)
	err := w.inner.Shutdown(ctx)
	cls := 0
	if errors.Is(ctx.Err(), context.DeadlineExceeded) {
		cls = 1
	} else if err != nil {
		cls = 2
	}
	w.h.rec.Emit("SD%d:%d", w.sid, cls)
	return err
}

// fakeSrv really binds a loopback listener (so the runner's TCP readiness probe is the real one) but
// serves nothing: accepted connections are closed at once.
type fakeSrv struct {
	addr  string
	mu    sync.Mutex
	ln    net.Listener
	shut  bool
	fail  error         // scripted Shutdown result
	delay time.Duration // time ListenAndServe takes to reach net.Listen (well under the 100 ms probe tick)
}

func (f *fakeSrv) ListenAndServe() error {
	if f.delay > 0 {
		time.Sleep(f.delay)
	}
	f.mu.Lock()
	if f.shut {
		f.mu.Unlock()
		return http.ErrServerClosed
	}
	ln, err := net.Listen("tcp", f.addr)
	if err != nil {
		f.mu.Unlock()
		return err
	}
	f.ln = ln
	f.mu.Unlock()
	for {
		c, err := ln.Accept()
		if err != nil {
			return http.ErrServerClosed
		}
		c.Close()
	}
}

func (f *fakeSrv) Shutdown(ctx context.Context) error {
	f.mu.Lock()
	defer f.mu.Unlock()
	f.shut = true
	if f.ln != nil {
		f.ln.Close()
	}
	return f.fail
}

type hist struct {
	sc        hscript
	rec       *director.Recorder
	ph        *director.ParkHandler
	runner    *httpserver.Runner
	mu        sync.Mutex
	cfgs      []cfgSpec // table, canonical addresses
	real      map[string]string
	canon     map[string]string
	addrsUsed []string // canonical, in order of first use
	next      atomic.Value // string: what the callback returns next ("E", "N", or table index)
	cbCalls   atomic.Int64
	servers   []*wrapSrv
	shutdowns atomic.Int64
	fakeFail  atomic.Bool
	slowBind  atomic.Bool
	lastDelivered atomic.Int64 // table index of the configuration the callback delivered last
	foreignNow map[string]bool // canonical addresses the harness itself holds bound (guarded by mu)
	envNoise   string
	lastTable  string // path -> answering route, as last observed on a Running real server
	portNoise  int
	censusObs  int
	initIdx    int
	baseServe  int
	baseOther  int
	props     []string
	parked    bool
	parksHit  int
	parksMiss int
	cancel    context.CancelFunc
	runDone   chan struct{}
	runStarted bool
	stopIDs   int
	relIDs    int
	pending   []chan struct{}
	foreign   map[string]net.Listener
	curIdx    int // table index of the configuration the harness believes active
	prevIdx   int
	quiesced  int
	stopIssued bool
}

func (h *hist) prop(name string, ok bool, format string, a ...any) {
	v := "ok"
	if !ok {
		v = "FAIL"
	}
	h.mu.Lock()
	h.props = append(h.props, fmt.Sprintf("%s %s %s", name, v, strings.ReplaceAll(fmt.Sprintf(format, a...), "\t", " ")))
	h.mu.Unlock()
}

func (h *hist) intern(c cfgSpec) int {
	h.mu.Lock()
	defer h.mu.Unlock()
	e := c.enc()
	for i, x := range h.cfgs {
		if x.enc() == e {
			return i
		}
	}
	h.cfgs = append(h.cfgs, c)
	found := false
	for _, a := range h.addrsUsed {
		if a == c.Addr {
			found = true
		}
	}
	if !found {
		h.addrsUsed = append(h.addrsUsed, c.Addr)
	}
	return len(h.cfgs) - 1
}

func (h *hist) setForeign(a string, v bool) {
	h.mu.Lock()
	if h.foreignNow == nil {
		h.foreignNow = map[string]bool{}
	}
	h.foreignNow[a] = v
	h.mu.Unlock()
}

// useAddr makes an address known to the snapshots.
func (h *hist) useAddr(a string) {
	h.mu.Lock()
	defer h.mu.Unlock()
	for _, x := range h.addrsUsed {
		if x == a {
			return
		}
	}
	h.addrsUsed = append(h.addrsUsed, a)
}

// equivSpec is the specification of "unchanged": same address, timeouts and SET of (name, path).
func equivSpec(a, b cfgSpec) bool {
	if a.Addr != b.Addr || a.Drain != b.Drain || a.Read != b.Read || a.Write != b.Write || a.Idle != b.Idle {
		return false
	}
	in := func(x rt, l []rt) bool {
		for _, y := range l {
			if x == y {
				return true
			}
		}
		return false
	}
	for _, x := range a.Routes {
		if !in(x, b.Routes) {
			return false
		}
	}
	for _, x := range b.Routes {
		if !in(x, a.Routes) {
			return false
		}
	}
	return true
}

func marker(name string) string { return hex.EncodeToString([]byte(name)) }

// realCfg builds a fresh *httpserver.Config for a table entry (canonical address -> real address).
func (h *hist) realCfg(c cfgSpec) *httpserver.Config {
	var rs httpserver.Routes
	for _, r := range c.Routes {
		name := r.Name
		x, err := httpserver.NewRouteFromHandlerFunc(r.Name, r.Path, func(w http.ResponseWriter, q *http.Request) {
			if ms, _ := strconv.Atoi(q.URL.Query().Get("sleep")); ms > 0 {
				time.Sleep(time.Duration(ms) * time.Millisecond) // ignores the request context on purpose
			}
			w.Header().Set("X-Route", marker(name))
			fmt.Fprint(w, "ok")
		})
		if err != nil {
			panic(err)
		}
		rs = append(rs, *x)
	}
	cfg, err := httpserver.NewConfig(h.real[c.Addr], rs,
		httpserver.WithDrainTimeout(time.Duration(c.Drain)), httpserver.WithReadTimeout(time.Duration(c.Read)),
		httpserver.WithWriteTimeout(time.Duration(c.Write)), httpserver.WithIdleTimeout(time.Duration(c.Idle)),
		httpserver.WithServerCreator(h.creator))
	if err != nil {
		panic(err)
	}
	return cfg
}

// creator is the public ServerCreator hook: it records the creation together with the configuration the
// server was really created from (address and timeouts from the Config it is given, ordered paths from
// cfg.Routes, route names by asking the handler it is given).
func (h *hist) creator(addr string, handler http.Handler, cfg *httpserver.Config) httpserver.HttpServer {
	got := cfgSpec{Addr: h.canon[addr], Drain: int64(cfg.DrainTimeout), Read: int64(cfg.ReadTimeout),
		Write: int64(cfg.WriteTimeout), Idle: int64(cfg.IdleTimeout)}
	var live httpserver.HttpServer
	if h.sc.Kind != "fake" {
		// the server that will really serve: its own address and timeouts are what counts ("serving exactly the
		// new configuration"), not only the Config the hook is handed
		live = httpserver.DefaultServerCreator(addr, handler, cfg)
		if hs, ok := live.(*http.Server); ok {
			got.Addr = h.canon[hs.Addr]
			got.Read, got.Write, got.Idle = int64(hs.ReadTimeout), int64(hs.WriteTimeout), int64(hs.IdleTimeout)
			handler = hs.Handler
		}
	}
	if got.Addr == "" {
		got.Addr = "?" + addr
	}
	for _, r := range cfg.Routes {
		rr := httptest.NewRecorder()
		handler.ServeHTTP(rr, httptest.NewRequest("GET", r.Path, nil))
		m, _ := hex.DecodeString(rr.Header().Get("X-Route"))
		got.Routes = append(got.Routes, rt{string(m), r.Path})
	}
	idx := h.intern(got)
	h.mu.Lock()
	sid := len(h.servers)
	w := &wrapSrv{h: h, sid: sid, cfg: idx}
	if h.sc.Kind == "fake" {
		f := &fakeSrv{addr: addr}
		if h.fakeFail.Load() {
			f.fail = errors.New("scripted shutdown failure")
		}
		if h.slowBind.Load() {
			f.delay = 40 * time.Millisecond
		}
		w.inner = f
	} else {
		w.inner = live
	}
	h.servers = append(h.servers, w)
	h.mu.Unlock()
	h.rec.Emit("CR%d:%d", sid, idx)
	return w
}

func (h *hist) callback() (*httpserver.Config, error) {
	n := h.cbCalls.Add(1)
	v, _ := h.next.Load().(string)
	if n == 1 { // NewRunner's initial load: not a reload-time delivery
		k, _ := strconv.Atoi(v)
		return h.realCfg(h.cfgs[k]), nil
	}
	switch v {
	case "E":
		h.rec.Emit("CBE")
		return nil, errors.New("scripted callback failure")
	case "N":
		h.rec.Emit("CBN")
		return nil, nil
	case "O": // an error that wraps the exported sentinel: Reload's errors.Is(err, ErrOldConfig) takes it for "unchanged"
		h.rec.Emit("CBO")
		return nil, fmt.Errorf("scripted callback failure: %w", httpserver.ErrOldConfig)
	}
	k, _ := strconv.Atoi(v)
	h.mu.Lock()
	c := h.cfgs[k]
	h.mu.Unlock()
	cfg := h.realCfg(c)
	h.lastDelivered.Store(int64(k))
	h.rec.Emit("CB%d", k)
	return cfg, nil
}

func runClass(err error) int {
	switch {
	case err == nil:
		return 0
	case errors.Is(err, httpserver.ErrServerBoot):
		return 1
	case errors.Is(err, httpserver.ErrHttpServer):
		return 2
	case errors.Is(err, httpserver.ErrGracefulShutdownTimeout):
		return 5
	case errors.Is(err, httpserver.ErrGracefulShutdown):
		return 6
	case errors.Is(err, httpserver.ErrServerNotRunning):
		return 7
	}
	return 3
}

func dialOK(addr string) bool {
	c, err := net.DialTimeout("tcp", addr, 300*time.Millisecond)
	if err != nil {
		return false
	}
	c.Close()
	return true
}

func (h *hist) serveTable(addr string) (string, map[string]string) {
	var ents []string
	tbl := map[string]string{}
	cl := &http.Client{Timeout: 2 * time.Second, Transport: &http.Transport{DisableKeepAlives: true}}
	for _, p := range pathUniverse {
		m := "-"
		resp, err := cl.Get("http://" + addr + p)
		if err == nil {
			io.Copy(io.Discard, resp.Body)
			resp.Body.Close()
			if resp.StatusCode == 200 && resp.Header.Get("X-Route") != "" {
				m = resp.Header.Get("X-Route")
			}
		} else {
			m = "!"
		}
		tbl[p] = m
		ents = append(ents, hx(p)+"="+m)
	}
	return strings.Join(ents, ","), tbl
}

// snapshot records the director's observations.  quiet = the harness knows that no timer-driven
// progress is pending and no goroutine is parked, so a quiescence marker may be emitted.
func (h *hist) snapshot(quiet bool) string {
	if quiet && !h.parked && h.rec.WaitQuiescent(300*time.Millisecond) {
		h.rec.Emit("QQ")
		h.quiesced++
		// C18: the goroutines the library created on the runner's behalf, by creating function
		serve, otherN, other := libCensus()
		// goroutines an EARLIER history of this process leaked are that history's finding, not this one's
		serve -= h.baseServe
		if otherN <= h.baseOther {
			other = nil
		}
		h.rec.Emit("CN%d", serve)
		h.censusObs++
		returned := false
		select {
		case <-h.runDone:
			returned = true
		default:
		}
		if returned {
			h.prop("c18-clean", serve == 0 && len(other) == 0, "after Run() returned, at quiescence: %d serve goroutines created by boot(), others: %v",
				serve, other)
		} else {
			h.prop("c18-bounded", serve <= 1 && len(other) == 0, "at quiescence (Run not returned): %d serve goroutines created by boot() after %d server creations, others: %v",
				serve, len(h.servers), other)
		}
	}
	st := h.runner.GetState()
	h.rec.Emit("ST%d", stateCode[st])
	h.mu.Lock()
	addrs := append([]string{}, h.addrsUsed...)
	var last *wrapSrv
	if len(h.servers) > 0 {
		last = h.servers[len(h.servers)-1]
	}
	h.mu.Unlock()
	dial := map[string]bool{}
	for _, a := range addrs {
		ok := dialOK(h.real[a])
		if _, mine := h.foreign[a]; mine && !ok {
			// the harness itself holds a listener on this address: a refused / timed-out dial is the loaded machine
			// (300 ms dial timeout), not the runner.  Retry with patience; if it still fails the history is not a trace
			// of the modelled environment (seen once in a thorough run at load average 35)
			for k := 0; k < 3 && !ok; k++ {
				time.Sleep(50 * time.Millisecond)
				if c, err := net.DialTimeout("tcp", h.real[a], 2*time.Second); err == nil {
					c.Close()
					ok = true
				}
			}
			if !ok && h.envNoise == "" {
				h.envNoise = fmt.Sprintf("dial to the harness's own listener on %s fails", a)
			}
		}
		dial[a] = ok
		b := 0
		if ok {
			b = 1
		}
		h.rec.Emit("DL%s:%d", hx(a), b)
	}
	if st == "Running" && last != nil {
		// what must be served is what the harness DELIVERED last (initially or through the callback), not what
		// the creation hook derived from the server it was handed
		h.mu.Lock()
		exp := h.cfgs[int(h.lastDelivered.Load())]
		h.mu.Unlock()
		var tblS string
		var tbl map[string]string
		served := true
		if dial[exp.Addr] && h.sc.Kind == "real" {
			tblS, tbl = h.serveTable(h.real[exp.Addr])
			h.lastTable = tblS
			for _, p := range pathUniverse {
				want := "-"
				for _, r := range exp.Routes {
					if r.Path == p {
						want = marker(r.Name)
					}
				}
				if tbl[p] != want {
					served = false
				}
			}
		}
		st2 := h.runner.GetState()
		if st2 == "Running" { // Running before and after the observations: they were made while Running
			if tblS != "" && !strings.Contains(tblS, "!") {
				h.rec.Emit("SV%s:%s", hx(exp.Addr), tblS)
			}
			h.rec.Emit("ST%d", stateCode[st2])
			h.prop("c12-running", dial[exp.Addr] && served, "state Running, dial(%s)=%v served-as-configured=%v stop-issued=%v table=%s",
				exp.Addr, dial[exp.Addr], served, h.stopIssued, tblS)
		}
	}
	return st
}

// libCensus counts the live goroutines the library created: serve goroutines (creator (*Runner).boot) and others.
func libCensus() (serve, otherN int, other []string) {
	for fn, n := range director.CreatedByLibrary() {
		switch {
		case strings.HasPrefix(fn, "runnables/httpserver.(*Runner).boot"):
			serve += n
		case strings.HasPrefix(fn, "runnables/httpserver") || strings.HasPrefix(fn, "internal/finitestate") ||
			strings.HasPrefix(fn, "supervisor/lifecycle"):
			otherN += n
			other = append(other, fmt.Sprintf("%s=%d", fn, n))
		}
	}
	return
}

func (h *hist) waitState(d time.Duration, pred func(string) bool) string {
	deadline := time.Now().Add(d)
	for {
		st := h.runner.GetState()
		if pred(st) || time.Now().After(deadline) {
			return st
		}
		time.Sleep(time.Millisecond)
	}
}

func waitCh(c chan struct{}, d time.Duration) bool {
	select {
	case <-c:
		return true
	case <-time.After(d):
		return false
	}
}

func (h *hist) doStop() chan struct{} {
	j := h.stopIDs
	h.stopIDs++
	done := make(chan struct{})
	h.rec.Emit("SC%d", j)
	go func() {
		h.runner.Stop()
		h.rec.Emit("SR%d", j)
		close(done)
	}()
	h.pending = append(h.pending, done)
	return done
}

func (h *hist) doReload() chan struct{} {
	i := h.relIDs
	h.relIDs++
	done := make(chan struct{})
	h.rec.Emit("LC%d", i)
	go func() {
		h.runner.Reload(context.Background())
		h.rec.Emit("LR%d", i)
		close(done)
	}()
	h.pending = append(h.pending, done)
	return done
}

func (h *hist) slowRequest(ms int) {
	h.mu.Lock()
	if len(h.servers) == 0 {
		h.mu.Unlock()
		return
	}
	c := h.cfgs[h.servers[len(h.servers)-1].cfg]
	h.mu.Unlock()
	if len(c.Routes) == 0 {
		return
	}
	url := fmt.Sprintf("http://%s%s?sleep=%d", h.real[c.Addr], c.Routes[0].Path, ms)
	go func() {
		resp, err := http.Get(url)
		if err == nil {
			io.Copy(io.Discard, resp.Body)
			resp.Body.Close()
		}
	}()
	time.Sleep(30 * time.Millisecond) // let the request reach its handler
}

// variant derives the configuration a reload delivers from the active one.
func (h *hist) variant(kind string, r *prng.R) (string, cfgSpec) {
	cur := h.cfgs[h.curIdx]
	c := cur
	c.Routes = append([]rt{}, cur.Routes...)
	fresh := func() rt { // a route on a path (and with a name) no route of c uses
		used := map[string]bool{}
		for _, r := range c.Routes {
			used[r.Path], used[r.Name] = true, true
		}
		for i, p := range pathUniverse {
			if n := fmt.Sprintf("n%d", i+1); !used[p] && !used[n] {
				return rt{n, p}
			}
		}
		return rt{"nx", "/rx"}
	}
	switch kind {
	case "same", "errold": // errold: the callback fails with an error wrapping ErrOldConfig; nothing is delivered
	case "perm":
		if len(c.Routes) > 1 {
			c.Routes = append(c.Routes[1:], c.Routes[0])
		}
	case "addr":
		for _, a := range []string{"A0", "A1", "A2"} {
			if a != cur.Addr {
				c.Addr = a
				break
			}
		}
	case "routes":
		switch len(c.Routes) {
		case 1:
			c.Routes = append(c.Routes, fresh())
		case 2:
			c.Routes[1] = rt{c.Routes[1].Name + "x", c.Routes[1].Path}
		default:
			c.Routes = c.Routes[:1]
		}
	case "swap": // two routes trade their paths: same names, same paths, different pairing
		if len(c.Routes) >= 2 {
			c.Routes[0].Path, c.Routes[1].Path = c.Routes[1].Path, c.Routes[0].Path
		} else {
			c.Routes = append(c.Routes, fresh())
		}
	case "zeroto": // timeouts switched off
		if c.Read == 0 && c.Write == 0 && c.Idle == 0 {
			c.Read, c.Write, c.Idle = int64(5*time.Second), int64(5*time.Second), int64(30*time.Second)
		} else {
			c.Read, c.Write, c.Idle = 0, 0, 0
		}
	case "zeroone": // one timeout switched off
		if c.Write == 0 {
			c.Write = int64(5 * time.Second)
		} else {
			c.Write = 0
		}
	case "repath": // the first route moves to a path no route uses
		used := map[string]bool{}
		for _, r := range c.Routes {
			used[r.Path] = true
		}
		for _, p := range pathUniverse {
			if !used[p] {
				c.Routes[0].Path = p
				break
			}
		}
	case "timeout":
		c.Read += int64(time.Second)
	case "idle":
		c.Idle += int64(time.Second)
	case "write":
		c.Write += int64(time.Second)
	case "drain":
		c.Drain += int64(time.Second)
	case "back":
		c = h.cfgs[h.prevIdx]
	case "busy":
		c.Addr = "A3"
	}
	return kind, c
}


func (h *hist) run() {
	h.rec = &director.Recorder{}
	h.ph = &director.ParkHandler{}
	h.baseServe, h.baseOther, _ = libCensus()
	as := freeAddrs(4)
	h.real = map[string]string{}
	h.canon = map[string]string{}
	for i, a := range as {
		c := fmt.Sprintf("A%d", i)
		h.real[c] = a
		h.canon[a] = c
	}
	h.foreign = map[string]net.Listener{}
	c0 := cfgSpec{Addr: "A0", Drain: int64(3 * time.Second), Read: int64(5 * time.Second), Write: int64(5 * time.Second),
		Idle: int64(30 * time.Second), Routes: []rt{{"n1", "/r1"}, {"n2", "/r2"}}}
	if len(h.sc.Init) > 0 {
		c0.Routes = append([]rt{}, h.sc.Init...)
	}
	h.curIdx = h.intern(c0)
	h.prevIdx = h.curIdx
	h.next.Store(strconv.Itoa(h.curIdx))
	var err error
	h.runner, err = httpserver.NewRunner(httpserver.WithConfigCallback(h.callback), httpserver.WithLogHandler(h.ph))
	if err != nil {
		emitLine("HERR\t%s\tNewRunner: %v", h.sc.Name, err)
		return
	}
	ctx, cancel := context.WithCancel(context.Background())
	h.cancel = cancel
	h.runDone = make(chan struct{})
	hung := false
	r := prng.New(*seed)

	for si, s := range h.sc.Steps {
		switch s.Op {
		case "run":
			if h.runStarted {
				continue
			}
			h.runStarted = true
			h.rec.Emit("RC")
			go func() {
				err := h.runner.Run(ctx)
				h.rec.Emit("RR%d", runClass(err))
				close(h.runDone)
			}()
			if strings.HasPrefix(s.During, "probe-") && !h.stopIssued {
				// the context is cancelled (or Stop arrives) INSIDE Run's own boot: 25 ms after the first server's
				// ListenAndServe was entered, while the readiness probe waits for its first tick
				deadline := time.Now().Add(2 * time.Second)
				for time.Now().Before(deadline) {
					h.mu.Lock()
					started := len(h.servers) > 0 && h.servers[0].lasCall.Load()
					h.mu.Unlock()
					if started {
						break
					}
					time.Sleep(200 * time.Microsecond)
				}
				time.Sleep(25 * time.Millisecond)
				h.stopIssued = true
				if s.During == "probe-stop" {
					h.doStop()
				} else {
					h.rec.Emit("XX")
					cancel()
				}
			}
			if h.stopIssued {
				if !waitCh(h.runDone, 10*time.Second) {
					hung = true
				}
			} else {
				h.waitState(8*time.Second, func(st string) bool { return st != "New" && st != "Booting" })
			}
			h.snapshot(true)
		case "busyrun":
			// Run's own boot on an address a foreign process holds: the initial configuration is A3
			if !h.runStarted {
				c := h.cfgs[h.curIdx]
				c.Addr = "A3"
				k := h.intern(c)
				h.curIdx, h.prevIdx = k, k
				h.lastDelivered.Store(int64(k))
				h.initIdx = k
				h.next.Store(strconv.Itoa(k))
				var err error
				h.runner, err = httpserver.NewRunner(httpserver.WithConfigCallback(func() (*httpserver.Config, error) {
					if h.cbCalls.Load() == 1 { // this runner's initial load
						h.cbCalls.Add(1)
						return h.realCfg(h.cfgs[k]), nil
					}
					return h.callback()
				}), httpserver.WithLogHandler(h.ph))
				if err != nil {
					emitLine("HERR\t%s\tNewRunner: %v", h.sc.Name, err)
					return
				}
				h.runStarted = true
				h.rec.Emit("RC")
				go func() {
					err := h.runner.Run(ctx)
					h.rec.Emit("RR%d", runClass(err))
					close(h.runDone)
				}()
				if !waitCh(h.runDone, 10*time.Second) {
					hung = true
				}
				h.snapshot(true)
			}
		case "fbind":
			a := "A3"
			if _, ok := h.foreign[a]; !ok {
				l, err := net.Listen("tcp", h.real[a])
				if err == nil {
					h.foreign[a] = l
					h.setForeign(a, true)
					h.useAddr(a)
					h.rec.Emit("FB%s", hx(a))
				}
			}
		case "ffree":
			if l, ok := h.foreign["A3"]; ok {
				l.Close()
				delete(h.foreign, "A3")
				h.setForeign("A3", false)
				h.rec.Emit("FF%s", hx("A3"))
			}
		case "failstop":
			h.fakeFail.Store(true)
		case "slowbind":
			h.slowBind.Store(true)
		case "slowreq":
			h.slowRequest(s.Ms)
		case "wait":
			time.Sleep(time.Duration(s.Ms) * time.Millisecond)
			h.snapshot(false)
		case "stop":
			h.stopIssued = true
			d := h.doStop()
			if h.runStarted {
				if !waitCh(h.runDone, 12*time.Second) || !waitCh(d, 3*time.Second) {
					hung = true
				}
			} else {
				time.Sleep(10 * time.Millisecond)
			}
			h.snapshot(h.runStarted && !hung)
		case "cancel":
			h.stopIssued = true
			h.rec.Emit("XX")
			cancel()
			if h.runStarted {
				if !waitCh(h.runDone, 12*time.Second) {
					hung = true
				}
			}
			h.snapshot(h.runStarted && !hung)
		case "reload":
			before := h.runner.GetState()
			tableBefore := h.lastTable
			kind, nc := h.variant(s.Cfg, r)
			changed := !equivSpec(nc, h.cfgs[h.curIdx])
			failStop := h.fakeFail.Load() && h.sc.Kind == "fake"
			switch kind {
			case "err":
				h.next.Store("E")
			case "nil":
				h.next.Store("N")
			case "errold":
				h.next.Store("O")
			default:
				h.next.Store(strconv.Itoa(h.intern(nc)))
			}
			if kind == "busy" {
				if _, ok := h.foreign["A3"]; !ok {
					l, err := net.Listen("tcp", h.real["A3"])
					if err == nil {
						h.foreign["A3"] = l
						h.setForeign("A3", true)
						h.useAddr("A3")
						h.rec.Emit("FB%s", hx("A3"))
					}
				}
			}
			h.mu.Lock()
			nSrvBefore := len(h.servers)
			h.mu.Unlock()
			shutBefore := h.shutdowns.Load()
			oldIdx := h.curIdx
			var p *director.Park
			if s.Park != "" {
				p = h.ph.ParkOn(s.Park)
			}
			d := h.doReload()
			interfered := false
			if p != nil {
				if p.WaitReached(2 * time.Second) {
					h.parksHit++
					h.parked = true
					h.snapshot(false)
					switch s.During {
					case "stop", "slowstop":
						if s.During == "slowstop" {
							h.slowRequest(s.Ms)
						}
						h.stopIssued, interfered = true, true
						h.doStop()
					case "cancel":
						h.stopIssued, interfered = true, true
						h.rec.Emit("XX")
						cancel()
					case "reload2":
						interfered = true
						h.doReload()
					}
					time.Sleep(20 * time.Millisecond)
					h.rec.WaitQuiescent(200 * time.Millisecond)
					h.snapshot(false)
					h.parked = false
					p.Release()
				} else {
					h.parksMiss++
					p.Release()
				}
			}
			if p == nil && strings.HasPrefix(s.During, "probe-") {
				// no log record lies inside the readiness probe's wait: act 25 ms after the NEW server's ListenAndServe was
				// entered, i.e. while it listens and the probe waits for its first 100 ms tick
				deadline := time.Now().Add(2 * time.Second)
				for time.Now().Before(deadline) {
					h.mu.Lock()
					started := len(h.servers) > nSrvBefore && h.servers[len(h.servers)-1].lasCall.Load()
					h.mu.Unlock()
					if started {
						break
					}
					select {
					case <-d:
						deadline = time.Now()
					default:
					}
					time.Sleep(200 * time.Microsecond)
				}
				select {
				case <-d: // the reload did not boot anything (no-op or failed early)
				default:
					time.Sleep(25 * time.Millisecond)
					h.stopIssued, interfered = true, true
					if s.During == "probe-stop" {
						h.doStop()
					} else {
						h.rec.Emit("XX")
						cancel()
					}
				}
			}
			if !waitCh(d, 12*time.Second) {
				hung = true
			}
			if s.During == "slowstop" && interfered {
				// sample the state and the port while the in-flight request keeps the drain open
				for k := 0; k < 4; k++ {
					h.snapshot(false)
					time.Sleep(40 * time.Millisecond)
				}
			}
			if h.stopIssued && h.runStarted {
				if !waitCh(h.runDone, 12*time.Second) {
					hung = true
				}
			}
			for _, pd := range h.pending {
				if !waitCh(pd, 5*time.Second) {
					hung = true
				}
			}
			after := h.snapshot(!hung)
			h.mu.Lock()
			created := h.servers[nSrvBefore:]
			h.mu.Unlock()
			shut := h.shutdowns.Load() - shutBefore
			// ---- C13 predicates on the observables (only for an undisturbed Reload on a Running server)
			if before == "Running" && !interfered && !h.stopIssued && !hung {
				switch {
				case kind == "err" || kind == "nil" || kind == "busy" || (changed && failStop):
					h.prop("c13-visible", after == "Error", "reload #%d (%s): state after = %s", si, kind, after)
				case !changed:
					// "leaves the live server untouched": nothing created or shut down, and every path is still answered by the
					// route that answered it before the reload (own-handler identity, real server)
					sameTable := h.sc.Kind != "real" || tableBefore == "" || strings.Contains(tableBefore+h.lastTable, "!") ||
						tableBefore == h.lastTable
					h.prop("c13-unchanged", len(created) == 0 && shut == 0 && after == "Running" && sameTable,
						"reload #%d (%s): created=%d shutdowns=%d state=%s routes-answer-as-before=%v (before %s after %s)", si, kind,
						len(created), shut, after, sameTable, tableBefore, h.lastTable)
				default:
					if after == "Running" {
						want := h.intern(nc)
						ok := len(created) == 1 && shut == 1 && created[0].cfg == want && dialOK(h.real[nc.Addr])
						oldAddr := h.cfgs[oldIdx].Addr
						if oldAddr != nc.Addr && dialOK(h.real[oldAddr]) {
							ok = false
						}
						h.prop("c13-changed", ok, "reload #%d (%s): created=%d shutdowns=%d created-from-new=%v", si, kind,
							len(created), shut, len(created) == 1 && created[0].cfg == want)
					} else {
						h.prop("c13-changed-failed", after == "Error", "reload #%d (%s): state after = %s", si, kind, after)
					}
				}
			}
			if before == "Running" && kind != "err" && kind != "nil" && !interfered && after == "Running" {
				h.prevIdx = oldIdx
				h.curIdx = h.intern(nc)
			} else if before == "Running" && changed && kind != "err" && kind != "nil" {
				h.curIdx = h.intern(nc) // r.config was replaced even if the restart failed
			}
		}
		if hung {
			break
		}
	}
	// ---- wind down: every history ends with Run returned and every caller back
	if !hung {
		if !h.stopIssued && h.runStarted {
			d := h.doStop()
			if !waitCh(h.runDone, 12*time.Second) || !waitCh(d, 3*time.Second) {
				hung = true
			}
		}
		if !h.runStarted {
			// a Stop() issued before Run() blocks until Run has started and finished
			h.runStarted = true
			h.rec.Emit("RC")
			go func() {
				err := h.runner.Run(ctx)
				h.rec.Emit("RR%d", runClass(err))
				close(h.runDone)
			}()
			if !h.stopIssued {
				h.waitState(8*time.Second, func(st string) bool { return st != "New" && st != "Booting" })
				h.doStop()
			}
			if !waitCh(h.runDone, 12*time.Second) {
				hung = true
			}
		}
		for _, pd := range h.pending {
			if !waitCh(pd, 5*time.Second) {
				hung = true
			}
		}
	}
	h.prop("c13-terminates", !hung, "Run/Stop/Reload all returned")
	if hung {
		h.ph.ReleaseAll()
		emitLine("HUNG\t%s\t%s", h.sc.Name, director.CensusString(director.Census()))
	} else {
		h.snapshot(true)
		// C12_released: every address this runner ever used can be bound again immediately
		for _, a := range h.addrsUsed {
			if _, f := h.foreign[a]; f {
				continue
			}
			l, err := net.Listen("tcp", h.real[a])
			if err == nil {
				l.Close()
				h.prop("c12-released", true, "after Run returned: net.Listen(%s) err=<nil>", a)
				continue
			}
			// still bound: by whom?  If every server this runner created for that address has returned from
			// ListenAndServe, the holder is another process on this machine that was handed the freed port
			// (environment noise: counted, not judged).
			ours := false
			h.mu.Lock()
			for _, w := range h.servers {
				if h.cfgs[w.cfg].Addr == a && !w.lasDone.Load() {
					ours = true
				}
			}
			h.mu.Unlock()
			if !ours {
				h.portNoise++
				continue
			}
			h.rec.Emit("DL%s:1", hx(a))
			transient := false
			for k := 0; k < 20 && !transient; k++ {
				time.Sleep(10 * time.Millisecond)
				if l2, err2 := net.Listen("tcp", h.real[a]); err2 == nil {
					l2.Close()
					transient = true
				}
			}
			h.prop("c12-released", false, "after Run returned: net.Listen(%s) err=%v transient=%v", a, err, transient)
		}
	}
	for _, l := range h.foreign {
		l.Close()
	}
	cancel()
	var encs []string
	for _, c := range h.cfgs {
		encs = append(encs, c.enc())
	}
	js, _ := json.Marshal(h.sc)
	if h.envNoise != "" {
		// not a trace of the runner in the modelled environment: counted, never judged
		emitLine("HENV\t%s\t%s\t%s", h.sc.Name, h.envNoise, js)
		return
	}
	emitLine("H\t%s\t%s\t%d\t%s", h.sc.Name, strings.Join(encs, "|"), h.initIdx, strings.Join(h.rec.Events(), " "))
	emitLine("HS\t%s\tkind=%s parks_hit=%d parks_missed=%d quiesced=%d servers=%d events=%d port_noise=%d census_obs=%d\t%s", h.sc.Name, h.sc.Kind,
		h.parksHit, h.parksMiss, h.quiesced, len(h.servers), len(h.rec.Events()), h.portNoise, h.censusObs, js)
	for _, p := range h.props {
		emitLine("PROP\t%s\t%s", h.sc.Name, p)
	}
}

// ------------------------------------------------------------------ scripts

func rl(cfg string) hstep { return hstep{Op: "reload", Cfg: cfg} }
func rlp(cfg, park, during string) hstep {
	return hstep{Op: "reload", Cfg: cfg, Park: park, During: during, Ms: 250}
}

var parkPoints = []string{"Reloading...", "Config unchanged, skipping reload", "Config reloaded",
	"Waiting for graceful HTTP server shutdown", "Starting HTTP server", "HTTP server is ready"}

// fixedScripts are always run first: one per shape the theorems distinguish.
func fixedScripts() []hscript {
	run := hstep{Op: "run"}
	stop := hstep{Op: "stop"}
	can := hstep{Op: "cancel"}
	ss := []hscript{
		{Name: "plain-stop", Steps: []hstep{run, stop}},
		{Name: "plain-cancel", Steps: []hstep{run, can}},
		{Name: "stop-before-run", Steps: []hstep{stop, run}},
		{Name: "cancel-before-run", Steps: []hstep{can, run}},
		{Name: "unchanged", Steps: []hstep{run, rl("same"), rl("perm"), stop}},
		// initial route lists that are not in path order; equal-but-freshly-built and permuted configurations, changed
		// ones in between; every step that ends Running is probed per route (own-handler identity)
		{Name: "unsorted-unchanged", Init: []rt{{"n4", "/r4"}, {"n1", "/r1"}, {"n3", "/r3"}},
			Steps: []hstep{run, rl("same"), rl("same"), rl("perm"), rl("same"), stop}},
		{Name: "unsorted-two", Init: []rt{{"n2", "/r2"}, {"n1", "/r1"}}, Steps: []hstep{run, rl("same"), rl("timeout"), rl("same"), rl("perm"), can}},
		{Name: "unsorted-names-vs-paths", Init: []rt{{"n1", "/r3"}, {"n3", "/r1"}, {"n2", "/r2"}},
			Steps: []hstep{run, rl("perm"), rl("same"), rl("swap"), rl("same"), rl("repath"), rl("same"), stop}},
		{Name: "each-field", Steps: []hstep{run, rl("addr"), rl("timeout"), rl("routes"), rl("drain"), rl("idle"), rl("write"), can}},
		{Name: "cancel-inside-run-boot", Steps: []hstep{{Op: "run", During: "probe-cancel"}}},
		{Name: "stop-inside-run-boot", Steps: []hstep{{Op: "run", During: "probe-stop"}}},
		{Name: "cancel-before-run-then-reloads", Steps: []hstep{can, run, rl("addr"), rl("same")}},
		{Name: "boot-fails-on-busy-address", Steps: []hstep{{Op: "fbind"}, {Op: "busyrun"}, rl("same"), stop}},
		{Name: "many-restarts", Steps: []hstep{run, rl("addr"), rl("routes"), rl("addr"), rl("timeout"), rl("swap"), rl("addr"), rl("zeroto"), rl("routes"), stop}},
		{Name: "restarts-then-failed-boot", Steps: []hstep{run, rl("addr"), rl("routes"), rl("busy"), rl("same"), {Op: "ffree"}, can}},
		{Name: "stop-in-probe-window", Steps: []hstep{run, {Op: "reload", Cfg: "routes", During: "probe-stop"}}},
		{Name: "stop-in-probe-window-addr", Steps: []hstep{run, rl("timeout"), {Op: "reload", Cfg: "addr", During: "probe-stop"}}},
		{Name: "cancel-in-probe-window", Steps: []hstep{run, {Op: "reload", Cfg: "addr", During: "probe-cancel"}}},
		{Name: "swap-pairing", Steps: []hstep{run, rl("swap"), rl("same"), rl("swap"), rl("perm"), stop}},
		{Name: "zero-timeouts", Steps: []hstep{run, rl("zeroto"), rl("same"), rl("zeroone"), rl("zeroto"), can}},
		{Name: "repath-back", Steps: []hstep{run, rl("repath"), rl("same"), rl("back"), rl("routes"), rl("routes"), rl("routes"), stop}},
		{Name: "cb-error", Steps: []hstep{run, rl("err"), rl("addr"), stop}},
		{Name: "cb-nil", Steps: []hstep{run, rl("same"), rl("nil"), rl("same"), can}},
		{Name: "cb-error-wrapping-errold", Steps: []hstep{run, rl("errold"), rl("addr"), rl("errold"), rl("same"), stop}},
		{Name: "busy-addr", Steps: []hstep{run, rl("busy"), rl("same"), stop}},
		{Name: "busy-then-free", Steps: []hstep{run, rl("addr"), rl("busy"), {Op: "ffree"}, stop}},
		{Name: "boot-on-busy", Steps: []hstep{{Op: "fbind"}, run, rl("busy"), stop}},
		{Name: "stop-failure", Kind: "fake", Steps: []hstep{{Op: "failstop"}, run, rl("addr"), rl("same"), stop}},
		{Name: "slow-bind", Kind: "fake", Steps: []hstep{{Op: "slowbind"}, run, rl("addr"), rl("same"), stop}},
		{Name: "stop-mid-unchanged", Steps: []hstep{run, rlp("same", "Config unchanged, skipping reload", "stop")}},
		{Name: "slowstop-mid-unchanged", Kind: "real", Steps: []hstep{run, rlp("same", "Config unchanged, skipping reload", "slowstop")}},
		{Name: "cancel-mid-unchanged", Steps: []hstep{run, rlp("perm", "Config unchanged, skipping reload", "cancel")}},
		{Name: "stop-mid-changed", Steps: []hstep{run, rlp("addr", "Config reloaded", "stop")}},
		{Name: "cancel-mid-boot", Steps: []hstep{run, rlp("routes", "Starting HTTP server", "cancel")}},
		{Name: "stop-after-probe", Steps: []hstep{run, rlp("addr", "HTTP server is ready", "stop")}},
		{Name: "slowstop-after-probe", Kind: "real", Steps: []hstep{run, rlp("timeout", "HTTP server is ready", "slowstop")}},
		{Name: "stop-before-lock", Steps: []hstep{run, rlp("addr", "Reloading...", "stop")}},
		{Name: "two-reloads", Steps: []hstep{run, rlp("addr", "Config reloaded", "reload2"), rl("same"), stop}},
		{Name: "stop-in-shutdown", Steps: []hstep{run, rlp("routes", "Waiting for graceful HTTP server shutdown", "stop")}},
	}
	var out []hscript
	for _, s := range ss {
		if s.Kind == "" {
			for _, k := range []string{"real", "fake"} {
				c := s
				c.Kind = k
				c.Name = s.Name + "/" + k
				out = append(out, c)
			}
		} else {
			s.Name += "/" + s.Kind
			out = append(out, s)
		}
	}
	return out
}

func randomScript(r *prng.R, i int) hscript {
	s := hscript{Name: fmt.Sprintf("rnd%d-%d", *seed, i), Kind: "real"}
	if r.Chance(1, 3) {
		s.Kind = "fake"
	}
	kinds := []string{"same", "perm", "addr", "routes", "repath", "timeout", "drain", "idle", "write", "back", "err", "nil", "busy", "addr", "routes", "same",
		"swap", "zeroto", "zeroone", "swap", "errold"}
	switch r.Intn(8) {
	case 0:
		s.Steps = append(s.Steps, hstep{Op: "stop"})
	case 1:
		s.Steps = append(s.Steps, hstep{Op: "cancel"})
	case 2:
		s.Steps = append(s.Steps, hstep{Op: "fbind"})
	}
	if !r.Chance(1, 3) { // a random initial route list: 1..3 routes on random distinct paths, in random order, names permuted
		idx := []int{0, 1, 2, 3}
		for i := len(idx) - 1; i > 0; i-- {
			j := r.Intn(i + 1)
			idx[i], idx[j] = idx[j], idx[i]
		}
		k := 1 + r.Intn(3)
		for x := 0; x < k; x++ {
			nm := idx[x]
			if r.Chance(1, 3) {
				nm = idx[(x+1)%k] // a name that belongs to another path's number
			}
			s.Init = append(s.Init, rt{fmt.Sprintf("n%d", nm+1), pathUniverse[idx[x]]})
		}
	}
	s.Steps = append(s.Steps, hstep{Op: "run"})
	n := 1 + r.Intn(4)
	for k := 0; k < n; k++ {
		st := hstep{Op: "reload", Cfg: prng.Pick(r, kinds)}
		if r.Chance(1, 3) {
			st.Park = prng.Pick(r, parkPoints)
			st.During = prng.Pick(r, []string{"stop", "cancel", "reload2", "slowstop", ""})
			st.Ms = 200
			if s.Kind == "fake" && st.During == "slowstop" {
				st.During = "stop"
			}
		}
		if st.Park == "" && r.Chance(1, 8) {
			st.During = prng.Pick(r, []string{"probe-stop", "probe-cancel"})
		}
		s.Steps = append(s.Steps, st)
		if st.Cfg == "busy" && r.Bool() {
			s.Steps = append(s.Steps, hstep{Op: "ffree"})
		}
	}
	if r.Bool() {
		s.Steps = append(s.Steps, hstep{Op: "cancel"})
	} else {
		s.Steps = append(s.Steps, hstep{Op: "stop"})
	}
	return s
}

func runHist() {
	var scripts []hscript
	if *caseArg != "" {
		b, err := os.ReadFile(*caseArg)
		if err != nil {
			fmt.Fprintln(os.Stderr, err)
			os.Exit(2)
		}
		var s hscript
		var w struct {
			Script hscript `json:"script"`
		}
		if json.Unmarshal(b, &w) == nil && len(w.Script.Steps) > 0 {
			s = w.Script
		} else if err := json.Unmarshal(b, &s); err != nil {
			fmt.Fprintln(os.Stderr, "bad case file:", err)
			os.Exit(2)
		}
		scripts = []hscript{s}
	} else {
		if *mode != "random" {
			scripts = fixedScripts()
		}
		if *mode != "fixed" {
			r := prng.New(*seed)
			for i := 0; i < *count; i++ {
				scripts = append(scripts, randomScript(r, i))
			}
		}
	}
	if *repeat > 1 {
		var rs []hscript
		for k := 0; k < *repeat; k++ {
			for _, s := range scripts {
				c := s
				c.Name = fmt.Sprintf("%s#%d", s.Name, k)
				rs = append(rs, c)
			}
		}
		scripts = rs
	}
	for _, s := range scripts {
		if *only != "" && !strings.Contains(s.Name, *only) {
			continue
		}
		h := &hist{sc: s}
		h.run()
		outMu.Lock()
		out.Flush()
		outMu.Unlock()
	}
}
