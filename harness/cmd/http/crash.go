package main

// C19: accepted inputs never crash the process.  The parent enumerates a grammar of constructor /
// option arguments, obtains the ServeMux oracle's value for every route list by registering the same
// patterns on a scratch mux under recover, and drives every case through Run, Reload and one request in
// a child process.  A crash of the child (with its stack) is an observed outcome, not a harness failure.

import (
	"bytes"
	"context"
	"encoding/json"
	"fmt"
	"io"
	"net/http"
	"net/url"
	"os"
	"os/exec"
	"runtime/debug"
	"strings"
	"sync"
	"sync/atomic"
	"time"

	"github.com/robbyt/go-supervisor/runnables/composite"
	"github.com/robbyt/go-supervisor/runnables/httpserver"
	"github.com/robbyt/go-supervisor/runnables/httpserver/middleware/headers"
	"github.com/robbyt/go-supervisor/runnables/httpserver/middleware/wildcard"
	"github.com/robbyt/go-supervisor/verif_harness/internal/prng"
)

type crashCase struct {
	ID      string              `json:"id"`
	Kind    string              `json:"kind"`  // routes|addr|timeouts|headers|wildcard|composite
	Where   string              `json:"where"` // construct|reload
	Routes  []rt                `json:"routes,omitempty"`
	Addr    string              `json:"addr"` // "free" = a free loopback address chosen by the child
	Drain   *int64              `json:"drain,omitempty"`
	Read    *int64              `json:"read,omitempty"`
	Write   *int64              `json:"write,omitempty"`
	Idle    *int64              `json:"idle,omitempty"`
	Headers map[string][]string `json:"headers,omitempty"`
	Prefix  *string             `json:"prefix,omitempty"`
	Paths   []string            `json:"paths,omitempty"` // request paths to issue (default: one derived from the first pattern)
	Comp    string              `json:"comp,omitempty"` // nil|empty
	// Build: the configuration is the LAST product of a chain of NewConfig calls; every public construction path:
	// each With* option in any order, WithConfigCopy of an EARLIER product combined with other routes / address /
	// timeouts, copies of copies, nil arguments.  Where = construct (Run with the last product), reload (Run with a
	// benign configuration, Reload delivers the last product) or chain (Run with the first product, then one Reload per
	// later product, in order).
	Build []buildStep `json:"build,omitempty"`
	Via   string      `json:"via,omitempty"` // "config": the runner gets the product through WithConfig instead of a callback
}

// optSpec is one functional option of NewConfig, in the order given.
type optSpec struct {
	K   string `json:"k"`             // drain|read|write|idle|copy|copynil|creator|creatornil|ctx|ctxnil
	V   int64  `json:"v,omitempty"`   // the duration (ns) of a timeout option
	Ref int    `json:"ref,omitempty"` // copy: index of the earlier product handed to WithConfigCopy
}

type buildStep struct {
	Addr   string    `json:"addr"` // "free" | "same" (the previous product's address) | a literal
	Routes []rt      `json:"routes"`
	Opts   []optSpec `json:"opts,omitempty"`
}

func (o optSpec) enc() string {
	switch o.K {
	case "drain":
		return fmt.Sprintf("d%d", o.V)
	case "read":
		return fmt.Sprintf("r%d", o.V)
	case "write":
		return fmt.Sprintf("w%d", o.V)
	case "idle":
		return fmt.Sprintf("i%d", o.V)
	case "copy":
		return fmt.Sprintf("c%d", o.Ref)
	}
	return "n" // options that touch no modelled field (incl. every nil argument)
}

func encRoutes(rs []rt) string {
	var out []string
	for _, r := range rs {
		out = append(out, hx(r.Name)+":"+hx(r.Path))
	}
	return strings.Join(out, ",")
}

// decisive returns the step whose route list decides the acceptance of the whole chain: the first one the
// constructor must refuse (empty list, or patterns the ServeMux oracle rejects), else the last.
func (c crashCase) decisive() (step int, ok bool, msg string) {
	for i, st := range c.Build {
		var ps []string
		for _, r := range st.Routes {
			ps = append(ps, r.Path)
		}
		ok, msg := muxOracle(ps)
		if !ok || len(st.Routes) == 0 {
			return i, ok, msg
		}
	}
	return len(c.Build) - 1, true, ""
}

type crashResult struct {
	Case     crashCase `json:"case"`
	OracleOK bool      `json:"oracle_ok"`
	Panic    string    `json:"oracle_panic,omitempty"`
	Class    string    `json:"oracle_class"` // none|duplicate-path|invalid-pattern
	Accepted bool      `json:"accepted"`
	Observed string    `json:"observed"` // ok|returned-error|error-state|rejected|crash|hang
	Detail   string    `json:"detail,omitempty"`
	Stack    string    `json:"stack,omitempty"`
}

// muxOracle registers the patterns, in order, on a fresh ServeMux under recover.
func muxOracle(paths []string) (ok bool, msg string) {
	defer func() {
		if r := recover(); r != nil {
			ok, msg = false, fmt.Sprint(r)
		}
	}()
	m := http.NewServeMux()
	for _, p := range paths {
		m.Handle(p, http.NotFoundHandler())
	}
	return true, ""
}

func panicClass(msg string) string {
	switch {
	case msg == "":
		return "none"
	case strings.Contains(msg, "conflicts with pattern"):
		return "duplicate-path" // every registration conflict (identical or overlapping patterns)
	default:
		return "invalid-pattern" // parse errors of a single pattern
	}
}

var big = strings.Repeat("a", 64*1024)

var routePool = []string{
	"/x", "/y", "/x/", "/x/{id}", "/x/{id}/y", "/files/{p...}", "/{$}", "/x/{$}", "GET /x", "POST /x", "GET /x/{id}",
	"example.com/x", "example.com/", "GET example.com/x/{id}",
	"/{a}", "/{b}", "/x/{a}", "/{b}/y", "/{a}/{a}", "/x/{y", "/x/{}", "/x/{a...}/y", "/{$}x", "{", "x", "GET", "GET  /x",
	" /x", "/x ", "//x", "/x//y", "/../x", "/ü", "/名/{id}", "/x\x00", "/x?q=1", "/x#f", "/%zz", "/a b",
	"CONNECT /x", "get /x", "GET /x/{a}/{b...}", "/x/{a}{b}", "/x/{a.b}", "/x/{ }", "/{...}",
}

func routeCases() []crashCase {
	var cs []crashCase
	add := func(rs ...rt) {
		for _, w := range []string{"construct", "reload"} {
			cs = append(cs, crashCase{Kind: "routes", Where: w, Routes: rs, Addr: "free"})
		}
	}
	for _, p := range routePool {
		add(rt{"a", p})
	}
	// duplicates and conflicts
	add(rt{"a", "/x"}, rt{"b", "/x"})
	add(rt{"a", "/x"}, rt{"a", "/x"})
	add(rt{"a", "/x"}, rt{"a", "/y"})
	add(rt{"a", "/{a}"}, rt{"b", "/{b}"})
	add(rt{"a", "/x/{a}"}, rt{"b", "/{b}/y"})
	add(rt{"a", "GET /x"}, rt{"b", "/x"})
	add(rt{"a", "GET /x"}, rt{"b", "GET /x"})
	add(rt{"a", "/x/"}, rt{"b", "/x/{p...}"})
	add(rt{"a", "/x"}, rt{"b", "/y"}, rt{"c", "/x"})
	add(rt{"a", "example.com/x"}, rt{"b", "/x"})
	add(rt{"a", "/x/{id}"}, rt{"b", "/x/{$}"})
	add(rt{"a", "/"+big})
	add(rt{big, "/x"})
	add(rt{"a b", "/x"}, rt{"c", "/y"})
	add(rt{"é", "/é"}, rt{"名", "/名"})
	return cs
}

func p64(v int64) *int64 { return &v }

func otherCases() []crashCase {
	var cs []crashCase
	ok := []rt{{"a", "/x"}}
	for _, a := range []string{"", "nonsense", "127.0.0.1:99999", "256.0.0.1:80", "127.0.0.1", ":-1", "127.0.0.1:0",
		"[::1", "127.0.0.1:http", "host name:80", "\x00:80", ":" + big, big} {
		for _, w := range []string{"construct", "reload"} {
			cs = append(cs, crashCase{Kind: "addr", Where: w, Routes: ok, Addr: a})
		}
	}
	durs := []int64{0, -1, 1, -1 << 63, 1<<63 - 1}
	for _, d := range durs {
		for _, w := range []string{"construct", "reload"} {
			cs = append(cs, crashCase{Kind: "timeouts", Where: w, Routes: ok, Addr: "free", Drain: p64(d)})
			cs = append(cs, crashCase{Kind: "timeouts", Where: w, Routes: ok, Addr: "free", Read: p64(d), Write: p64(d), Idle: p64(d)})
		}
	}
	hs := []map[string][]string{
		nil, {}, {"X-Ok": {"v"}}, {"Bad Key": {"v"}}, {"X\nY": {"v"}}, {"": {"v"}}, {"X-É": {"é"}},
		{"X-Inj": {"a\r\nInjected: 1"}}, {"X-Empty": {}}, {"X-Nil": nil}, {"X-Big": {big}}, {big: {"v"}},
		{"Content-Length": {"-5"}}, {"Content-Length": {"abc"}}, {"Transfer-Encoding": {"bogus"}}, {"X-Nul": {"\x00"}},
	}
	for _, h := range hs {
		cs = append(cs, crashCase{Kind: "headers", Where: "construct", Routes: ok, Addr: "free", Headers: h})
	}
	cs = append(cs, crashCase{Kind: "headers", Where: "reload", Routes: ok, Addr: "free", Headers: hs[7]})
	// wildcard prefixes x request paths: bare prefix (no trailing slash), the prefix, below it, shorter, sibling, root
	for _, p := range []string{"", "/", "api", "/api", "/api/", "//", "//api/", "é", "/é/", "/a b/", big, "{x}", "/x/{id}/", "\x00"} {
		p := p
		for _, w := range []string{"construct", "reload"} {
			if w == "reload" && len(p) > 8 {
				continue
			}
			cs = append(cs, crashCase{Kind: "wildcard", Where: w, Routes: []rt{{"w", "/"}}, Addr: "free", Prefix: &p,
				Paths: wildcardPaths(p)})
		}
	}
	for _, c := range []string{"nil", "empty"} {
		for _, w := range []string{"construct", "reload"} {
			cs = append(cs, crashCase{Kind: "composite", Where: w, Comp: c})
		}
	}
	// what the callback itself delivers at reload time: nil, an error
	for _, c := range []string{"nil", "err"} {
		cs = append(cs, crashCase{Kind: "callback", Where: "reload", Routes: ok, Addr: "free", Comp: c})
	}
	return cs
}

// wildcardPaths lists request paths around a wildcard prefix (normalised the way wildcard.New documents it).
func wildcardPaths(prefix string) []string {
	np := prefix
	if np == "" {
		np = "/"
	}
	if !strings.HasPrefix(np, "/") {
		np = "/" + np
	}
	if np != "/" && !strings.HasSuffix(np, "/") {
		np += "/"
	}
	if len(np) > 200 {
		np = np[:200] + "/"
	}
	bare := strings.TrimSuffix(np, "/")
	ps := []string{"/", np, np + "x", np + "x/y", bare + "x", "/zzz", "/é"}
	if bare != "" {
		ps = append(ps, bare)
		if len(bare) > 1 {
			ps = append(ps, bare[:len(bare)-1])
		}
	}
	return ps
}

var (
	goodA = []rt{{"a", "/x"}}
	goodB = []rt{{"a", "/x"}, {"b", "/y/{id}"}}
	goodC = []rt{{"h", "/health"}, {"i", "GET /items/{id}"}}
	badSets = [][]rt{
		{{"h", "/health"}, {"i", "GET /items/{id}"}, {"j", "GET /items/{name}"}}, // equivalent wildcards
		{{"a", "/x"}, {"b", "/x"}},      // duplicate path
		{{"a", "/x"}, {"b", "/x/{y"}},   // malformed pattern
		{{"a", "no-slash"}},             // malformed pattern
		{{"a", "/x/"}, {"b", "/x/{p...}"}},
	}
)

// buildCases: every public construction path of a *Config, each product driven through Run and Reload.
func buildCases() []crashCase {
	var cs []crashCase
	add := func(steps ...buildStep) {
		for _, w := range []string{"construct", "reload", "chain"} {
			if w == "chain" && len(steps) < 2 {
				continue
			}
			cs = append(cs, crashCase{Kind: "build", Where: w, Addr: "free", Build: steps})
		}
	}
	d := func(ms int64) optSpec { return optSpec{K: "drain", V: ms * 1e6} }
	base := func(rs []rt, opts ...optSpec) buildStep {
		return buildStep{Addr: "free", Routes: rs, Opts: append([]optSpec{d(800)}, opts...)}
	}
	cp := func(ref int) optSpec { return optSpec{K: "copy", Ref: ref} }
	// a valid base, then "same settings, other routes": valid and refused-by-ServeMux route sets, the copy first or
	// last among the options, the same and another address
	for _, rs := range append([][]rt{goodB, goodC}, badSets...) {
		for _, a := range []string{"same", "free"} {
			add(base(goodA), buildStep{Addr: a, Routes: rs, Opts: []optSpec{cp(0)}})
		}
		add(base(goodA), buildStep{Addr: "same", Routes: rs, Opts: []optSpec{{K: "read", V: 2e9}, cp(0), {K: "idle", V: 3e9}}})
		add(base(goodA), buildStep{Addr: "free", Routes: rs, Opts: []optSpec{cp(0), d(500), {K: "ctx"}, {K: "creator"}}})
	}
	// chains of copies: the flag-like state of a product two copies away
	for _, rs := range append([][]rt{goodC}, badSets[:3]...) {
		add(base(goodA), buildStep{Addr: "same", Routes: goodB, Opts: []optSpec{cp(0)}},
			buildStep{Addr: "same", Routes: rs, Opts: []optSpec{cp(1)}})
		add(base(goodA), buildStep{Addr: "free", Routes: goodB, Opts: []optSpec{cp(0), {K: "write", V: 0}}},
			buildStep{Addr: "free", Routes: rs, Opts: []optSpec{cp(0), cp(1)}})
	}
	// the same routes again through a copy (boot() does exactly this), other timeouts, zero timeouts copied along
	add(base(goodB), buildStep{Addr: "same", Routes: goodB, Opts: []optSpec{cp(0)}})
	add(base(goodB, optSpec{K: "read", V: 0}, optSpec{K: "write", V: 0}, optSpec{K: "idle", V: 0}),
		buildStep{Addr: "free", Routes: goodA, Opts: []optSpec{cp(0)}})
	add(base(goodB), buildStep{Addr: "same", Routes: goodB, Opts: []optSpec{cp(0), d(0)}})
	add(base(goodB), buildStep{Addr: "same", Routes: goodA, Opts: []optSpec{d(-1), cp(0)}})
	// nil arguments of every option that takes a reference; options only
	add(buildStep{Addr: "free", Routes: goodA, Opts: []optSpec{d(800), {K: "copynil"}, {K: "creatornil"}, {K: "ctxnil"}}})
	add(buildStep{Addr: "free", Routes: badSets[1], Opts: []optSpec{{K: "copynil"}, {K: "creator"}}})
	add(buildStep{Addr: "free", Routes: goodC, Opts: []optSpec{{K: "creator"}, {K: "ctx"}, d(700), {K: "read", V: 1}, {K: "write", V: 1 << 62}, {K: "idle", V: -5}}})
	// a base the constructor must refuse (nothing may be built on it), an empty route list with a copy
	add(base(badSets[0]), buildStep{Addr: "same", Routes: goodA, Opts: []optSpec{cp(0)}})
	add(base(goodA), buildStep{Addr: "same", Routes: nil, Opts: []optSpec{cp(0)}})
	// the product handed to the runner through WithConfig (static configuration)
	for _, rs := range [][]rt{goodB, badSets[0], badSets[2]} {
		cs = append(cs, crashCase{Kind: "build", Where: "construct", Addr: "free", Via: "config",
			Build: []buildStep{base(goodA), {Addr: "same", Routes: rs, Opts: []optSpec{cp(0)}}}})
	}
	return cs
}

func randomBuildCases(r *prng.R, n int) []crashCase {
	var cs []crashCase
	names := []string{"a", "b", "c", "a b", "é"}
	okPool := []string{"/x", "/y", "/x/", "/x/{id}", "/files/{p...}", "/{$}", "GET /x", "POST /x", "example.com/x", "/z/{a}/{b}"}
	durs := []int64{0, -1, 1, 5e8, 2e9, 1 << 62}
	for i := 0; i < n; i++ {
		k := 1 + r.Intn(3)
		var steps []buildStep
		for j := 0; j < k; j++ {
			last := j == k-1
			var rs []rt
			m := 1 + r.Intn(3)
			for x := 0; x < m; x++ {
				pool := okPool
				if last && r.Intn(3) > 0 {
					pool = routePool // the last product also draws from the malformed and conflicting patterns
				}
				rs = append(rs, rt{prng.Pick(r, names), prng.Pick(r, pool)})
			}
			st := buildStep{Addr: prng.Pick(r, []string{"free", "same"}), Routes: rs}
			no := r.Intn(5)
			for x := 0; x < no; x++ {
				switch q := r.Intn(10); {
				case q < 4 && j > 0:
					st.Opts = append(st.Opts, optSpec{K: "copy", Ref: r.Intn(j)})
				case q < 8:
					v := prng.Pick(r, durs)
					kk := prng.Pick(r, []string{"drain", "read", "write", "idle"})
					if kk == "drain" && !last && v > 1e9 {
						v = 5e8
					}
					st.Opts = append(st.Opts, optSpec{K: kk, V: v})
				default:
					st.Opts = append(st.Opts, optSpec{K: prng.Pick(r, []string{"copynil", "creator", "creatornil", "ctx", "ctxnil"})})
				}
			}
			if j > 0 && r.Intn(2) == 0 {
				st.Opts = append(st.Opts, optSpec{K: "copy", Ref: r.Intn(j)})
			}
			steps = append(steps, st)
		}
		w := prng.Pick(r, []string{"construct", "reload", "chain"})
		if w == "chain" && k < 2 {
			w = "construct"
		}
		cs = append(cs, crashCase{Kind: "build", Where: w, Addr: "free", Build: steps})
	}
	return cs
}

func randomRouteCases(r *prng.R, n int) []crashCase {
	var cs []crashCase
	names := []string{"a", "b", "c", "a b", "é"}
	for i := 0; i < n; i++ {
		k := 1 + r.Intn(4)
		var rs []rt
		for j := 0; j < k; j++ {
			rs = append(rs, rt{prng.Pick(r, names), prng.Pick(r, routePool)})
		}
		w := "construct"
		if r.Bool() {
			w = "reload"
		}
		cs = append(cs, crashCase{Kind: "routes", Where: w, Routes: rs, Addr: "free"})
	}
	return cs
}

func runCrash() {
	var cases []crashCase
	if *caseArg != "" {
		b, err := os.ReadFile(*caseArg)
		if err != nil {
			fmt.Fprintln(os.Stderr, err)
			os.Exit(2)
		}
		var one struct {
			Case crashCase `json:"case"`
		}
		if err := json.Unmarshal(b, &one); err != nil || one.Case.Kind == "" {
			var c crashCase
			if err2 := json.Unmarshal(b, &c); err2 != nil {
				fmt.Fprintln(os.Stderr, "bad case file:", err, err2)
				os.Exit(2)
			}
			one.Case = c
		}
		cases = []crashCase{one.Case}
	} else {
		cases = append(routeCases(), otherCases()...)
		cases = append(cases, buildCases()...)
		if *mode == "quick" {
			// keep every route case, thin the slow address cases (each costs the 5 s probe timeout)
			var thin []crashCase
			na := 0
			for _, c := range cases {
				if c.Kind == "addr" {
					na++
					if na%5 != 1 {
						continue
					}
				}
				thin = append(thin, c)
			}
			cases = thin
		}
		cases = append(cases, randomRouteCases(prng.New(*seed), *count)...)
		cases = append(cases, randomBuildCases(prng.New(*seed+7919), *count)...)
	}
	for i := range cases {
		if cases[i].ID == "" {
			cases[i].ID = fmt.Sprintf("c%04d", i)
		}
	}
	var df *os.File
	if *detail != "" {
		df, _ = os.Create(*detail)
		defer df.Close()
	}
	self, _ := os.Executable()
	sem := make(chan struct{}, *jobs)
	var wg sync.WaitGroup
	var dmu sync.Mutex
	for _, c := range cases {
		c := c
		wg.Add(1)
		sem <- struct{}{}
		go func() {
			defer wg.Done()
			defer func() { <-sem }()
			res := crashResult{Case: c, OracleOK: true, Class: "none"}
			modelRoutes := c.Routes
			if len(c.Build) > 0 {
				// the routes that decide the chain's acceptance are what the model is asked about
				var st int
				st, res.OracleOK, res.Panic = c.decisive()
				res.Class = panicClass(res.Panic)
				modelRoutes = c.Build[st].Routes
			} else if len(c.Routes) > 0 {
				var ps []string
				for _, r := range c.Routes {
					ps = append(ps, r.Path)
				}
				res.OracleOK, res.Panic = muxOracle(ps)
				res.Class = panicClass(res.Panic)
			}
			in, _ := json.Marshal(c)
			ctx, cancel := context.WithTimeout(context.Background(), 40*time.Second)
			defer cancel()
			cmd := exec.CommandContext(ctx, self, "-family", "crash-child")
			cmd.Stdin = bytes.NewReader(in)
			var so, se bytes.Buffer
			cmd.Stdout, cmd.Stderr = &so, &se
			err := cmd.Run()
			outS := so.String()
			res.Accepted = strings.Contains(outS, "ACCEPTED")
			switch {
			case ctx.Err() != nil:
				res.Observed, res.Detail = "hang", lastLines(outS+se.String(), 30)
			case err != nil:
				res.Observed = "crash"
				res.Stack = lastLines(se.String(), 60)
				if i := strings.Index(se.String(), "panic:"); i >= 0 {
					res.Stack = firstLines(se.String()[i:], 40)
					res.Detail = firstLines(se.String()[i:], 1)
				} else {
					res.Detail = err.Error()
				}
			default:
				res.Observed = "none"
				if i := strings.Index(se.String(), "panic in request handling"); i >= 0 {
					res.Stack = firstLines(se.String()[i:], 30)
				}
				for _, l := range strings.Split(outS, "\n") {
					if strings.HasPrefix(l, "OUT ") {
						f := strings.SplitN(l[4:], " ", 2)
						res.Observed = f[0]
						if len(f) > 1 {
							res.Detail = f[1]
						}
					}
				}
			}
			var rs []string
			for _, r := range modelRoutes {
				rs = append(rs, hx(r.Name)+":"+hx(r.Path))
			}
			// NewConfig differential (one line per construction step the child performed): the child prints
			// "NC <step> <addr> <routes> <opts> <result>", the parent adds the case id and the oracle's verdict
			for _, l := range strings.Split(outS, "\n") {
				if f := strings.Split(l, "\t"); len(f) == 6 && f[0] == "NC" {
					var k int
					fmt.Sscan(f[1], &k)
					o := 0
					if k < len(c.Build) {
						var ps []string
						for _, r := range c.Build[k].Routes {
							ps = append(ps, r.Path)
						}
						if ok, _ := muxOracle(ps); ok {
							o = 1
						}
					}
					emitLine("NC\t%s\t%s\t%s\t%s\t%s\t%d\t%s", c.ID, f[1], f[2], f[3], f[4], o, f[5])
				}
			}
			acc, orc := 0, 0
			if res.Accepted {
				acc = 1
			}
			if res.OracleOK {
				orc = 1
			}
			emitLine("CR\t%s\t%s\t%s\t%s\t%d\t%s\t%d\t%s", c.ID, c.Kind, c.Where, strings.Join(rs, ","), orc, res.Class, acc, res.Observed)
			if df != nil {
				b, _ := json.Marshal(res)
				dmu.Lock()
				df.Write(append(b, '\n'))
				dmu.Unlock()
			}
		}()
	}
	wg.Wait()
}

func lastLines(s string, n int) string {
	ls := strings.Split(strings.TrimRight(s, "\n"), "\n")
	if len(ls) > n {
		ls = ls[len(ls)-n:]
	}
	return strings.Join(ls, "\n")
}

func firstLines(s string, n int) string {
	ls := strings.Split(s, "\n")
	if len(ls) > n {
		ls = ls[:n]
	}
	return strings.Join(ls, "\n")
}

// ------------------------------------------------------------------ child

type dummy struct{ stop chan struct{} }

func (d *dummy) Run(ctx context.Context) error {
	select {
	case <-ctx.Done():
	case <-d.stop:
	}
	return nil
}
func (d *dummy) Stop()          { close(d.stop) }
func (d *dummy) String() string { return "dummy" }

// concreteRequest derives a request matching a ServeMux pattern.
func concreteRequest(pattern string) (method, path string) {
	method = "GET"
	p := pattern
	if i := strings.IndexAny(p, " \t"); i >= 0 {
		method, p = p[:i], strings.TrimLeft(p[i+1:], " \t")
	}
	if i := strings.Index(p, "/"); i > 0 {
		p = p[i:] // drop the host
	}
	if !strings.HasPrefix(p, "/") {
		return "GET", "/"
	}
	var b strings.Builder
	for len(p) > 0 {
		i := strings.Index(p, "{")
		if i < 0 {
			b.WriteString(p)
			break
		}
		b.WriteString(p[:i])
		j := strings.Index(p[i:], "}")
		if j < 0 {
			break
		}
		name := p[i+1 : i+j]
		switch {
		case name == "$":
		case strings.HasSuffix(name, "..."):
			b.WriteString("v/w")
		default:
			b.WriteString("v")
		}
		p = p[i+j+1:]
	}
	return method, b.String()
}

func outcome(format string, a ...any) {
	fmt.Printf("OUT "+format+"\n", a...)
}

func waitSettled(state func() string, errc chan error, d time.Duration) (string, error, bool) {
	deadline := time.Now().Add(d)
	for time.Now().Before(deadline) {
		select {
		case err := <-errc:
			return state(), err, true
		default:
		}
		switch s := state(); s {
		case "Running", "Error", "Stopped":
			return s, nil, false
		}
		time.Sleep(2 * time.Millisecond)
	}
	return state(), nil, false
}

func crashChild() {
	in, _ := io.ReadAll(os.Stdin)
	var c crashCase
	if err := json.Unmarshal(in, &c); err != nil {
		fmt.Println("bad case", err)
		os.Exit(3)
	}
	if c.Kind == "composite" {
		compositeChild(c)
		return
	}
	var served atomic.Int64
	var handlerPanic atomic.Value
	mk := func(rs []rt) (httpserver.Routes, error) {
		var out httpserver.Routes
		for _, r := range rs {
			// first in the chain: notices a panic of any later middleware or of the handler ("request handling never
			// panics"), records it with its stack and lets it continue to net/http's own per-connection recover
			mws := []httpserver.HandlerFunc{func(rp *httpserver.RequestProcessor) {
				defer func() {
					if x := recover(); x != nil {
						handlerPanic.CompareAndSwap(nil, fmt.Sprintf("panic in request handling (%s %s): %v\n%s",
							rp.Request().Method, rp.Request().URL.Path, x, debug.Stack()))
						panic(x)
					}
				}()
				rp.Next()
			}}
			if c.Kind == "headers" {
				mws = append(mws, headers.New(http.Header(c.Headers)))
			}
			if c.Prefix != nil {
				mws = append(mws, wildcard.New(*c.Prefix))
			}
			name := r.Name
			x, err := httpserver.NewRouteFromHandlerFunc(r.Name, r.Path, func(w http.ResponseWriter, q *http.Request) {
				served.Add(1)
				w.Header().Set("X-Route", hx(name))
				fmt.Fprint(w, "ok")
			}, mws...)
			if err != nil {
				return nil, err
			}
			out = append(out, *x)
		}
		return out, nil
	}
	// ---- the configurations to deliver, in order: seq[0] is what Run() starts with, every later one is delivered
	// by one Reload()
	type delivered struct {
		cfg    *httpserver.Config
		routes []rt
	}
	var seq []delivered
	var cfg *httpserver.Config
	var cfgRoutes []rt
	if len(c.Build) > 0 {
		var products []delivered
		for i, st := range c.Build {
			a := st.Addr
			switch {
			case a == "same" && i > 0:
				a = products[i-1].cfg.ListenAddr
			case a == "same" || a == "free":
				a = freeAddrs(1)[0]
			}
			routes, err := mk(st.Routes)
			if err != nil {
				outcome("rejected route: %v", err)
				return
			}
			var opts []httpserver.ConfigOption
			var oe []string
			for _, o := range st.Opts {
				oe = append(oe, o.enc())
				switch o.K {
				case "drain":
					opts = append(opts, httpserver.WithDrainTimeout(time.Duration(o.V)))
				case "read":
					opts = append(opts, httpserver.WithReadTimeout(time.Duration(o.V)))
				case "write":
					opts = append(opts, httpserver.WithWriteTimeout(time.Duration(o.V)))
				case "idle":
					opts = append(opts, httpserver.WithIdleTimeout(time.Duration(o.V)))
				case "copy":
					opts = append(opts, httpserver.WithConfigCopy(products[o.Ref].cfg))
				case "copynil":
					opts = append(opts, httpserver.WithConfigCopy(nil))
				case "creator":
					opts = append(opts, httpserver.WithServerCreator(func(ad string, h http.Handler, cf *httpserver.Config) httpserver.HttpServer {
						return httpserver.DefaultServerCreator(ad, h, cf)
					}))
				case "creatornil":
					opts = append(opts, httpserver.WithServerCreator(nil))
				case "ctx":
					opts = append(opts, httpserver.WithRequestContext(context.Background()))
				case "ctxnil":
					opts = append(opts, httpserver.WithRequestContext(nil)) //nolint:staticcheck // the nil argument is the case
				}
			}
			p, err := httpserver.NewConfig(a, routes, opts...)
			res := "rejected"
			if err == nil && p != nil {
				sp := cfgSpec{Addr: p.ListenAddr, Drain: int64(p.DrainTimeout), Read: int64(p.ReadTimeout),
					Write: int64(p.WriteTimeout), Idle: int64(p.IdleTimeout)}
				// the routes the product really carries (read back through the public field)
				for k, r := range p.Routes {
					nm := ""
					if k < len(st.Routes) {
						nm = st.Routes[k].Name
					}
					sp.Routes = append(sp.Routes, rt{nm, r.Path})
				}
				res = sp.enc()
			}
			fmt.Printf("NC\t%d\t%s\t%s\t%s\t%s\n", i, hx(a), encRoutes(st.Routes), strings.Join(oe, ","), res)
			if err != nil {
				outcome("rejected config: step %d: %v", i, err)
				return
			}
			products = append(products, delivered{p, st.Routes})
		}
		last := products[len(products)-1]
		cfg, cfgRoutes = last.cfg, last.routes
		if c.Where == "chain" {
			seq = products
		}
	} else {
		addr := c.Addr
		if addr == "free" {
			addr = freeAddrs(1)[0]
		}
		routes, err := mk(c.Routes)
		if err != nil {
			outcome("rejected route: %v", err)
			return
		}
		var opts []httpserver.ConfigOption
		if c.Drain != nil {
			opts = append(opts, httpserver.WithDrainTimeout(time.Duration(*c.Drain)))
		} else {
			opts = append(opts, httpserver.WithDrainTimeout(2*time.Second))
		}
		if c.Read != nil {
			opts = append(opts, httpserver.WithReadTimeout(time.Duration(*c.Read)))
		}
		if c.Write != nil {
			opts = append(opts, httpserver.WithWriteTimeout(time.Duration(*c.Write)))
		}
		if c.Idle != nil {
			opts = append(opts, httpserver.WithIdleTimeout(time.Duration(*c.Idle)))
		}
		cfg, err = httpserver.NewConfig(addr, routes, opts...)
		if err != nil {
			outcome("rejected config: %v", err)
			return
		}
		cfgRoutes = c.Routes
	}
	fmt.Println("ACCEPTED")
	switch {
	case len(seq) > 0:
	case c.Where == "construct":
		seq = []delivered{{cfg, cfgRoutes}}
	default:
		br := []rt{{"benign", "/benign"}}
		benign, _ := mk(br)
		b, err := httpserver.NewConfig(freeAddrs(1)[0], benign, httpserver.WithDrainTimeout(2*time.Second))
		if err != nil {
			fmt.Println("harness: benign config rejected", err)
			os.Exit(3)
		}
		seq = []delivered{{b, br}, {cfg, cfgRoutes}}
	}
	var cur atomic.Pointer[httpserver.Config]
	cur.Store(seq[0].cfg)
	var cbMode atomic.Value // "", "nil", "err"
	cbMode.Store("")
	ropt := httpserver.WithConfigCallback(func() (*httpserver.Config, error) {
		switch cbMode.Load().(string) {
		case "nil":
			return nil, nil
		case "err":
			return nil, fmt.Errorf("scripted callback failure")
		}
		return cur.Load(), nil
	})
	if c.Via == "config" {
		ropt = httpserver.WithConfig(seq[0].cfg)
	}
	runner, err := httpserver.NewRunner(ropt)
	if err != nil {
		outcome("returned-error NewRunner: %v", err)
		return
	}
	errc := make(chan error, 1)
	go func() { errc <- runner.Run(context.Background()) }()
	st, rerr, returned := waitSettled(runner.GetState, errc, 12*time.Second)
	if returned {
		outcome("returned-error Run: %v (state %s)", rerr, st)
		return
	}
	request := func(d delivered) string {
		if len(d.routes) == 0 {
			return "norequest"
		}
		m, p := concreteRequest(d.routes[0].Path)
		paths := []string{p}
		if len(c.Paths) > 0 {
			paths = c.Paths
		}
		var res []string
		for _, p := range paths {
			u := url.URL{Scheme: "http", Host: d.cfg.ListenAddr, Path: p}
			req, err := http.NewRequest(m, u.String(), nil)
			if err != nil {
				res = append(res, "badrequest")
				continue
			}
			cl := &http.Client{Timeout: 3 * time.Second, Transport: &http.Transport{DisableKeepAlives: true}}
			resp, err := cl.Do(req)
			if err != nil {
				res = append(res, "reqerr")
				continue
			}
			io.Copy(io.Discard, resp.Body)
			resp.Body.Close()
			res = append(res, fmt.Sprint(resp.StatusCode))
		}
		return strings.Join(res, ",")
	}
	reqRes := ""
	if st == "Running" && len(seq) == 1 {
		reqRes = request(seq[0])
	}
	if len(seq) > 1 && st != "Running" && len(c.Build) == 0 {
		fmt.Println("harness: benign config did not reach Running:", st)
		os.Exit(3)
	}
	st2 := st
	if len(seq) == 1 {
		runner.Reload(context.Background()) // construct: the unchanged configuration once more
		st2 = runner.GetState()
	}
	for _, d := range seq[1:] {
		cur.Store(d.cfg)
		if c.Kind == "callback" {
			cbMode.Store(c.Comp)
		}
		runner.Reload(context.Background())
		st2 = runner.GetState()
		if st2 == "Running" {
			reqRes = request(d)
		}
	}
	done := make(chan struct{})
	go func() { runner.Stop(); close(done) }()
	select {
	case <-done:
	case <-time.After(15 * time.Second):
		outcome("hang Stop did not return (state %s)", runner.GetState())
		os.Exit(0)
	}
	rerr = <-errc
	switch {
	case handlerPanic.Load() != nil:
		hp := handlerPanic.Load().(string)
		outcome("handler-panic %s", strings.ReplaceAll(firstLines(hp, 1), "\n", " "))
		fmt.Fprintln(os.Stderr, hp)
	case st != "Running" || st2 != "Running":
		outcome("error-state after-run=%s after-reload=%s run=%v req=%s", st, st2, rerr, reqRes)
	case rerr != nil:
		outcome("returned-error Run: %v req=%s", rerr, reqRes)
	default:
		outcome("ok req=%s served=%d", reqRes, served.Load())
	}
}

func compositeChild(c crashCase) {
	fmt.Println("ACCEPTED")
	mk := func() *composite.Config[*dummy] {
		var es []composite.RunnableEntry[*dummy]
		if c.Comp == "empty" {
			es = []composite.RunnableEntry[*dummy]{}
		}
		cfg, err := composite.NewConfig("comp", es)
		if err != nil {
			outcome("rejected config: %v", err)
			os.Exit(0)
		}
		return cfg
	}
	var cur atomic.Pointer[composite.Config[*dummy]]
	if c.Where == "construct" {
		cur.Store(mk())
	} else {
		d := &dummy{stop: make(chan struct{})}
		cfg, _ := composite.NewConfig("comp", []composite.RunnableEntry[*dummy]{{Runnable: d}})
		cur.Store(cfg)
	}
	runner, err := composite.NewRunner(func() (*composite.Config[*dummy], error) { return cur.Load(), nil })
	if err != nil {
		outcome("returned-error NewRunner: %v", err)
		return
	}
	errc := make(chan error, 1)
	go func() { errc <- runner.Run(context.Background()) }()
	st, rerr, returned := waitSettled(runner.GetState, errc, 5*time.Second)
	if returned {
		outcome("returned-error Run: %v (state %s)", rerr, st)
		return
	}
	if c.Where == "reload" {
		cur.Store(mk())
	}
	runner.Reload(context.Background())
	_ = runner.String()
	runner.Reload(context.Background())
	st2 := runner.GetState()
	done := make(chan struct{})
	go func() { runner.Stop(); close(done) }()
	select {
	case <-done:
	case <-time.After(10 * time.Second):
		outcome("hang Stop did not return (state %s)", runner.GetState())
		os.Exit(0)
	}
	rerr = <-errc
	switch {
	case st != "Running" || st2 != "Running":
		outcome("error-state after-run=%s after-reload=%s run=%v", st, st2, rerr)
	case rerr != nil:
		outcome("returned-error Run: %v", rerr)
	default:
		outcome("ok")
	}
}
