// c17race is the dynamic leg of property C17 (search / validation, not the claim).
// Built with -race, one invocation runs ONE small random concurrent program of public
// API calls (2-6 goroutines) against a live supervisor / composite runner / HTTP server /
// HTTP cluster while Run, reloads and shutdown are in flight.  The race detector's reports
// go to stderr and are parsed by checks/c17.py; a one-line JSON summary goes to stdout.
// All randomness comes from internal/prng seeded by -seed and -idx.
package main

import (
	"context"
	"encoding/json"
	"errors"
	"flag"
	"fmt"
	"hash/fnv"
	"io"
	"log/slog"
	"net"
	"net/http"
	"os"
	"runtime"
	"sync"
	"sync/atomic"
	"syscall"
	"time"

	"github.com/robbyt/go-supervisor/runnables/composite"
	"github.com/robbyt/go-supervisor/runnables/httpcluster"
	"github.com/robbyt/go-supervisor/runnables/httpserver"
	"github.com/robbyt/go-supervisor/supervisor"
	"github.com/robbyt/go-supervisor/verif_harness/internal/prng"
)

// ---------------------------------------------------------------- race-free mock runnable

type mock struct {
	name      string
	mu        sync.Mutex
	stopCh    chan struct{}
	state     string
	subs      map[chan string]struct{}
	failAfter time.Duration
	reloads   atomic.Int64
	cfg       atomic.Value
	reloadTr  chan struct{}
	shutTr    chan struct{}
}

func newMock(name string, failAfter time.Duration) *mock {
	return &mock{name: name, state: "New", subs: map[chan string]struct{}{}, failAfter: failAfter,
		reloadTr: make(chan struct{}), shutTr: make(chan struct{})}
}

func (m *mock) String() string { return m.name }

func (m *mock) setState(s string) {
	m.mu.Lock()
	m.state = s
	for ch := range m.subs {
		select {
		case ch <- s:
		default:
		}
	}
	m.mu.Unlock()
}

func (m *mock) Run(ctx context.Context) error {
	m.mu.Lock()
	ch := make(chan struct{})
	m.stopCh = ch
	m.mu.Unlock()
	m.setState("Running")
	defer m.setState("Stopped")
	var fail <-chan time.Time
	if m.failAfter > 0 {
		t := time.NewTimer(m.failAfter)
		defer t.Stop()
		fail = t.C
	}
	select {
	case <-ctx.Done():
		return nil
	case <-ch:
		return nil
	case <-fail:
		return errors.New("mock " + m.name + " failed")
	}
}

func (m *mock) Stop() {
	m.mu.Lock()
	if m.stopCh != nil {
		select {
		case <-m.stopCh:
		default:
			close(m.stopCh)
		}
	}
	m.mu.Unlock()
}

func (m *mock) IsRunning() bool { return m.GetState() == "Running" }

func (m *mock) GetState() string {
	m.mu.Lock()
	defer m.mu.Unlock()
	return m.state
}

func (m *mock) GetStateChan(ctx context.Context) <-chan string {
	ch := make(chan string, 16)
	m.mu.Lock()
	ch <- m.state
	m.subs[ch] = struct{}{}
	m.mu.Unlock()
	go func() {
		<-ctx.Done()
		m.mu.Lock()
		delete(m.subs, ch)
		close(ch)
		m.mu.Unlock()
	}()
	return ch
}

func (m *mock) Reload(context.Context)              { m.reloads.Add(1) }
func (m *mock) ReloadWithConfig(c any)              { m.cfg.Store(fmt.Sprint(c)); m.reloads.Add(1) }
func (m *mock) GetReloadTrigger() <-chan struct{}   { return m.reloadTr }
func (m *mock) GetShutdownTrigger() <-chan struct{} { return m.shutTr }

// plain hides every optional interface of the mock (a Runnable only)
type plain struct{ m *mock }

func (p plain) String() string                { return p.m.name }
func (p plain) Run(ctx context.Context) error { return p.m.Run(ctx) }
func (p plain) Stop()                         { p.m.Stop() }

// ---------------------------------------------------------------- scenario plumbing

type opFn func(ctx context.Context, r *prng.R)

type namedOp struct {
	name string
	fn   opFn
}

type scenario struct {
	target   string
	r        *prng.R
	ops      []namedOp // the menu
	finish   []namedOp // ways to end the scenario
	run      func(ctx context.Context) error
	ready    func() bool
	counts   map[string]int
	countsMu sync.Mutex
	program  [][]string
}

func logHandler(r *prng.R) slog.Handler {
	if r.Bool() {
		return slog.NewTextHandler(io.Discard, &slog.HandlerOptions{Level: slog.LevelDebug})
	}
	return slog.DiscardHandler
}

// bg runs a possibly blocking call without waiting for it.
func bg(f func()) { go f() }

func pause(r *prng.R) {
	switch r.Intn(4) {
	case 0:
		runtime.Gosched()
	case 1:
		time.Sleep(time.Duration(r.Intn(300)) * time.Microsecond)
	case 2:
		time.Sleep(time.Duration(r.Intn(3)) * time.Millisecond)
	}
}

func freeAddr() string {
	l, err := net.Listen("tcp", "127.0.0.1:0")
	if err != nil {
		return "127.0.0.1:0"
	}
	a := l.Addr().String()
	_ = l.Close()
	return a
}

func drain(ctx context.Context, ch <-chan string) {
	for {
		select {
		case _, ok := <-ch:
			if !ok {
				return
			}
		case <-ctx.Done():
			return
		}
	}
}

func stateChanOp(get func(context.Context) <-chan string) opFn {
	return func(ctx context.Context, r *prng.R) {
		c, cancel := context.WithTimeout(ctx, 15*time.Millisecond)
		ch := get(c)
		bg(func() { drain(c, ch); cancel() })
	}
}

// ---------------------------------------------------------------- targets

func compositeTarget(r *prng.R, sc *scenario) {
	n := 3 + r.Intn(4)
	children := make([]*mock, n)
	for i := range children {
		var fail time.Duration
		if r.Chance(1, 8) {
			fail = time.Duration(5+r.Intn(40)) * time.Millisecond
		}
		children[i] = newMock(fmt.Sprintf("child%d", i), fail)
	}
	mk := func(k int, tag string) *composite.Config[*mock] {
		es := make([]composite.RunnableEntry[*mock], 0, k)
		for i := 0; i < k; i++ {
			es = append(es, composite.RunnableEntry[*mock]{Runnable: children[i], Config: tag})
		}
		c, _ := composite.NewConfig("comp", es)
		return c
	}
	var cfgs []*composite.Config[*mock]
	for k := 1; k <= n; k++ {
		cfgs = append(cfgs, mk(k, "a"), mk(k, "b"))
	}
	var idx atomic.Int64
	idx.Store(int64(r.Intn(2))) // start small so that reloads grow the membership
	cb := func() (*composite.Config[*mock], error) { return cfgs[int(idx.Load())%len(cfgs)], nil }
	runner, err := composite.NewRunner(cb, composite.WithLogHandler[*mock](logHandler(r)))
	if err != nil {
		panic(err)
	}
	sc.run = runner.Run
	sc.ready = runner.IsRunning
	sc.ops = []namedOp{
		{"String", func(context.Context, *prng.R) { _ = runner.String() }},
		{"GetState", func(context.Context, *prng.R) { _ = runner.GetState() }},
		{"IsRunning", func(context.Context, *prng.R) { _ = runner.IsRunning() }},
		{"GetChildStates", func(context.Context, *prng.R) { _ = runner.GetChildStates() }},
		{"GetStateChan", stateChanOp(runner.GetStateChan)},
		{"GetStateChanWithTimeout", stateChanOp(runner.GetStateChanWithTimeout)},
		{"ReloadGrow", func(ctx context.Context, r *prng.R) {
			idx.Store(int64(2 * (1 + r.Intn(n-1))))
			bg(func() { runner.Reload(ctx) })
		}},
		{"ReloadSame", func(ctx context.Context, r *prng.R) { idx.Store(idx.Load() ^ 1); bg(func() { runner.Reload(ctx) }) }},
		{"ReloadGrow", func(ctx context.Context, r *prng.R) {
			idx.Store(int64(2*(n-1) + r.Intn(2)))
			bg(func() { runner.Reload(ctx) })
		}},
	}
	if r.Chance(1, 5) {
		// Run() is a public method too: a second call while the first is in progress
		sc.ops = append(sc.ops, namedOp{"RunAgain", func(ctx context.Context, _ *prng.R) { bg(func() { _ = runner.Run(ctx) }) }})
	}
	sc.finish = []namedOp{
		{"Stop", func(context.Context, *prng.R) { bg(runner.Stop) }},
		{"ChildFails", func(context.Context, *prng.R) { /* some child's failAfter fires */ }},
	}
}

func httpCfg(addr string, variant int) *httpserver.Config {
	h := func(w http.ResponseWriter, _ *http.Request) { _, _ = w.Write([]byte("ok")) }
	rt, err := httpserver.NewRouteFromHandlerFunc("root", "/", h)
	if err != nil {
		panic(err)
	}
	c, err := httpserver.NewConfig(addr, httpserver.Routes{*rt},
		httpserver.WithDrainTimeout(200*time.Millisecond),
		httpserver.WithReadTimeout(time.Duration(1+variant)*time.Second))
	if err != nil {
		panic(err)
	}
	return c
}

func httpGet(addr string) {
	c := http.Client{Timeout: 100 * time.Millisecond}
	resp, err := c.Get("http://" + addr + "/")
	if err == nil {
		_, _ = io.Copy(io.Discard, resp.Body)
		_ = resp.Body.Close()
	}
	c.CloseIdleConnections()
}

func httpserverTarget(r *prng.R, sc *scenario) {
	addr := freeAddr()
	cfgs := []*httpserver.Config{httpCfg(addr, 0), httpCfg(addr, 1), httpCfg(addr, 2)}
	var idx atomic.Int64
	cb := func() (*httpserver.Config, error) { return cfgs[int(idx.Load())%len(cfgs)], nil }
	runner, err := httpserver.NewRunner(httpserver.WithConfigCallback(cb), httpserver.WithName("srv"),
		httpserver.WithLogHandler(logHandler(r)))
	if err != nil {
		panic(err)
	}
	sc.run = runner.Run
	sc.ready = runner.IsRunning
	sc.ops = []namedOp{
		{"String", func(context.Context, *prng.R) { _ = runner.String() }},
		{"GetState", func(context.Context, *prng.R) { _ = runner.GetState() }},
		{"IsRunning", func(context.Context, *prng.R) { _ = runner.IsRunning() }},
		{"GetStateChan", stateChanOp(runner.GetStateChan)},
		{"GetStateChanWithTimeout", stateChanOp(runner.GetStateChanWithTimeout)},
		{"ReloadChanged", func(ctx context.Context, r *prng.R) { idx.Add(1); bg(func() { runner.Reload(ctx) }) }},
		{"ReloadUnchanged", func(ctx context.Context, r *prng.R) { bg(func() { runner.Reload(ctx) }) }},
		{"HTTPGet", func(context.Context, *prng.R) { bg(func() { httpGet(addr) }) }},
	}
	if r.Chance(1, 5) {
		sc.ops = append(sc.ops, namedOp{"RunAgain", func(ctx context.Context, _ *prng.R) { bg(func() { _ = runner.Run(ctx) }) }})
	}
	sc.finish = []namedOp{{"Stop", func(context.Context, *prng.R) { bg(runner.Stop) }}}
}

func httpclusterTarget(r *prng.R, sc *scenario) {
	opts := []httpcluster.Option{httpcluster.WithLogHandler(logHandler(r)), httpcluster.WithRestartDelay(time.Millisecond)}
	if r.Chance(1, 3) {
		opts = append(opts, httpcluster.WithSiphonBuffer(1))
	}
	runner, err := httpcluster.NewRunner(opts...)
	if err != nil {
		panic(err)
	}
	ids := []string{"a", "b", "c"}
	addrs := map[string]string{}
	for _, id := range ids {
		addrs[id] = freeAddr()
	}
	siphon := runner.GetConfigSiphon()
	push := func(ctx context.Context, r *prng.R) {
		m := map[string]*httpserver.Config{}
		for _, id := range ids {
			if r.Chance(2, 3) {
				m[id] = httpCfg(addrs[id], r.Intn(2))
			}
		}
		bg(func() {
			t := time.NewTimer(400 * time.Millisecond)
			defer t.Stop()
			select {
			case siphon <- m:
			case <-t.C:
			case <-ctx.Done():
			}
		})
	}
	sc.run = runner.Run
	sc.ready = runner.IsRunning
	sc.ops = []namedOp{
		{"String", func(context.Context, *prng.R) { _ = runner.String() }},
		{"GetServerCount", func(context.Context, *prng.R) { _ = runner.GetServerCount() }},
		{"GetState", func(context.Context, *prng.R) { _ = runner.GetState() }},
		{"IsRunning", func(context.Context, *prng.R) { _ = runner.IsRunning() }},
		{"GetStateChan", stateChanOp(runner.GetStateChan)},
		{"GetStateChanWithTimeout", stateChanOp(runner.GetStateChanWithTimeout)},
		{"SiphonPush", push},
		{"GetConfigSiphon", func(context.Context, *prng.R) { _ = runner.GetConfigSiphon() }},
	}
	if r.Chance(1, 5) {
		sc.ops = append(sc.ops, namedOp{"RunAgain", func(ctx context.Context, _ *prng.R) { bg(func() { _ = runner.Run(ctx) }) }})
	}
	sc.finish = []namedOp{{"Stop", func(context.Context, *prng.R) { bg(runner.Stop) }}}
}

func supervisorTarget(r *prng.R, sc *scenario) {
	var rs []supervisor.Runnable
	var mocks []*mock
	nm := 1 + r.Intn(3)
	for i := 0; i < nm; i++ {
		var fail time.Duration
		if r.Chance(1, 10) {
			fail = time.Duration(20+r.Intn(60)) * time.Millisecond
		}
		m := newMock(fmt.Sprintf("m%d", i), fail)
		mocks = append(mocks, m)
		if r.Chance(1, 4) {
			rs = append(rs, plain{m})
		} else {
			rs = append(rs, m)
		}
	}
	var comp *composite.Runner[*mock]
	if r.Bool() {
		kids := []*mock{newMock("k0", 0), newMock("k1", 0), newMock("k2", 0)}
		var idx atomic.Int64
		cfgs := []*composite.Config[*mock]{}
		for k := 1; k <= 3; k++ {
			c, _ := composite.NewConfigFromRunnables("inner", kids[:k], k)
			cfgs = append(cfgs, c)
		}
		cb := func() (*composite.Config[*mock], error) { return cfgs[int(idx.Add(1))%len(cfgs)], nil }
		c, err := composite.NewRunner(cb, composite.WithLogHandler[*mock](logHandler(r)))
		if err != nil {
			panic(err)
		}
		comp = c
		rs = append(rs, c)
	}
	ctx, cancel := context.WithCancel(context.Background())
	sv, err := supervisor.New(supervisor.WithRunnables(rs...), supervisor.WithContext(ctx),
		supervisor.WithLogHandler(logHandler(r)), supervisor.WithStartupInitial(time.Millisecond),
		supervisor.WithStartupTimeout(2*time.Second), supervisor.WithShutdownTimeout(2*time.Second))
	if err != nil {
		panic(err)
	}
	sc.run = func(context.Context) error { return sv.Run() }
	sc.ready = func() bool {
		for _, m := range mocks {
			if !m.IsRunning() {
				return false
			}
		}
		return true
	}
	sc.ops = []namedOp{
		{"String", func(context.Context, *prng.R) { _ = sv.String() }},
		{"GetCurrentStates", func(context.Context, *prng.R) { _ = sv.GetCurrentStates() }},
		{"GetCurrentState", func(_ context.Context, r *prng.R) { _ = sv.GetCurrentState(rs[r.Intn(len(rs))]) }},
		{"GetStateMap", func(context.Context, *prng.R) { _ = sv.GetStateMap() }},
		{"AddStateSubscriber", func(_ context.Context, r *prng.R) {
			ch := make(chan supervisor.StateMap, 1+r.Intn(3))
			unsub := sv.AddStateSubscriber(ch)
			d := time.Duration(r.Intn(20)) * time.Millisecond
			bg(func() { time.Sleep(d); unsub() })
		}},
		{"SubscribeStateChanges", func(ctx context.Context, r *prng.R) {
			c, cancel := context.WithTimeout(ctx, time.Duration(1+r.Intn(20))*time.Millisecond)
			ch := sv.SubscribeStateChanges(c)
			bg(func() {
				for range ch {
				}
				cancel()
			})
		}},
		{"ReloadAll", func(context.Context, *prng.R) { bg(sv.ReloadAll) }},
		{"SendSignalHUP", func(context.Context, *prng.R) { bg(func() { sv.SendSignal(syscall.SIGHUP) }) }},
		{"SendSignalUSR1", func(context.Context, *prng.R) { bg(func() { sv.SendSignal(syscall.SIGUSR1) }) }},
		{"ReloadTrigger", func(ctx context.Context, r *prng.R) {
			m := mocks[r.Intn(len(mocks))]
			bg(func() {
				select {
				case m.reloadTr <- struct{}{}:
				case <-time.After(50 * time.Millisecond):
				}
			})
		}},
		{"MockStateChange", func(_ context.Context, r *prng.R) { mocks[r.Intn(len(mocks))].setState("Running") }},
	}
	if r.Chance(1, 5) {
		sc.ops = append(sc.ops, namedOp{"RunAgain", func(context.Context, *prng.R) { bg(func() { _ = sv.Run() }) }})
	}
	if comp != nil {
		sc.ops = append(sc.ops,
			namedOp{"Composite.String", func(context.Context, *prng.R) { _ = comp.String() }},
			namedOp{"Composite.GetChildStates", func(context.Context, *prng.R) { _ = comp.GetChildStates() }},
			namedOp{"Composite.Reload", func(ctx context.Context, r *prng.R) { bg(func() { comp.Reload(ctx) }) }},
		)
	}
	sc.finish = []namedOp{
		{"Shutdown", func(context.Context, *prng.R) { bg(sv.Shutdown) }},
		{"Shutdown", func(context.Context, *prng.R) { bg(sv.Shutdown); bg(sv.Shutdown) }},
		{"CancelContext", func(context.Context, *prng.R) { cancel() }},
		{"SendSignalTERM", func(context.Context, *prng.R) { bg(func() { sv.SendSignal(syscall.SIGTERM) }) }},
		{"ShutdownTrigger", func(context.Context, *prng.R) {
			m := mocks[r.Intn(len(mocks))]
			bg(func() {
				select {
				case m.shutTr <- struct{}{}:
				case <-time.After(300 * time.Millisecond):
					sv.Shutdown()
				}
			})
		}},
	}
}

// ---------------------------------------------------------------- driver

type summary struct {
	Idx         int            `json:"idx"`
	Target      string         `json:"target"`
	Goroutines  int            `json:"goroutines"`
	Ops         int            `json:"ops"`
	OpsByKind   map[string]int `json:"ops_by_kind"`
	Finish      string         `json:"finish"`
	Program     string         `json:"program"`
	Ready       bool           `json:"ready"`
	RunReturned bool           `json:"run_returned"`
	RunErr      string         `json:"run_err,omitempty"`
	Threads     [][]string     `json:"threads,omitempty"`
}

func main() {
	target := flag.String("target", "all", "supervisor|composite|httpserver|httpcluster|all")
	seed := flag.Uint64("seed", 1, "PRNG seed")
	idx := flag.Int("idx", 0, "scenario index")
	verbose := flag.Bool("v", false, "include the generated program in the summary")
	flag.Parse()

	targets := []string{"httpcluster", "composite", "supervisor", "httpserver"}
	tg := *target
	if tg == "all" {
		tg = targets[*idx%len(targets)]
	}
	r := prng.New(*seed*1000003 + uint64(*idx)*7919 + 17)
	sc := &scenario{target: tg, r: r, counts: map[string]int{}}
	switch tg {
	case "supervisor":
		supervisorTarget(r, sc)
	case "composite":
		compositeTarget(r, sc)
	case "httpserver":
		httpserverTarget(r, sc)
	case "httpcluster":
		httpclusterTarget(r, sc)
	default:
		fmt.Fprintln(os.Stderr, "unknown target", tg)
		os.Exit(2)
	}

	ctx, cancel := context.WithCancel(context.Background())
	defer cancel()
	runDone := make(chan error, 1)
	go func() { runDone <- sc.run(ctx) }()

	// half of the scenarios start hammering while Run is still booting
	ready := false
	if r.Bool() {
		deadline := time.Now().Add(2 * time.Second)
		for time.Now().Before(deadline) {
			if sc.ready() {
				ready = true
				break
			}
			time.Sleep(2 * time.Millisecond)
		}
	}

	k := 2 + r.Intn(5)
	fin := sc.finish[r.Intn(len(sc.finish))]
	finisher := r.Intn(k)
	finishAt := 2 + r.Intn(8)
	if r.Chance(1, 4) {
		finishAt = r.Intn(2) // terminate while Run() is still starting
	}
	// every goroutine draws its program from its own generator, fixed before the threads start
	progs := make([][]namedOp, k)
	gens := make([]*prng.R, k)
	for g := 0; g < k; g++ {
		n := 6 + r.Intn(12)
		for i := 0; i < n; i++ {
			progs[g] = append(progs[g], sc.ops[r.Intn(len(sc.ops))])
		}
		gens[g] = r.Fork()
	}
	var wg sync.WaitGroup
	var total atomic.Int64
	h := fnv.New64a()
	threads := make([][]string, k)
	for g := 0; g < k; g++ {
		for i, o := range progs[g] {
			if g == finisher && i == finishAt {
				threads[g] = append(threads[g], "FINISH:"+fin.name)
			}
			threads[g] = append(threads[g], o.name)
		}
		fmt.Fprintf(h, "%d:%v;", g, threads[g])
	}
	// the plan goes to stderr up front, so that it is known even if the scenario crashes the process
	if pb, err := json.Marshal(map[string]any{"target": tg, "idx": *idx, "finish": fin.name, "threads": threads}); err == nil {
		fmt.Fprintln(os.Stderr, "PLAN "+string(pb))
	}
	// every op draws from the generator of the goroutine that executes it (the harness is race free)
	for g := 0; g < k; g++ {
		wg.Add(1)
		go func(g int) {
			defer wg.Done()
			for i, o := range progs[g] {
				if g == finisher && i == finishAt {
					fin.fn(ctx, gens[g])
				}
				o.fn(ctx, gens[g])
				total.Add(1)
				sc.countsMu.Lock()
				sc.counts[o.name]++
				sc.countsMu.Unlock()
				pause(gens[g])
			}
		}(g)
	}
	wg.Wait()
	if finishAt >= len(progs[finisher]) {
		fin.fn(ctx, r)
	}
	sum := summary{Idx: *idx, Target: tg, Goroutines: k, Ops: int(total.Load()), OpsByKind: sc.counts,
		Finish: fin.name, Program: fmt.Sprintf("%016x", h.Sum64()), Ready: ready}
	select {
	case err := <-runDone:
		sum.RunReturned = true
		if err != nil {
			sum.RunErr = err.Error()
		}
	case <-time.After(4 * time.Second):
		cancel()
		select {
		case <-runDone:
			sum.RunReturned = true
			sum.RunErr = "only after context cancel"
		case <-time.After(2 * time.Second):
		}
	}
	if *verbose {
		sum.Threads = threads
	}
	b, _ := json.Marshal(sum)
	fmt.Println(string(b))
	os.Exit(0)
}
