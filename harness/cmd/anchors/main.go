// anchors computes, for every Go function a Coq model section mirrors, a digest of its comment-stripped,
// position-free AST (DESIGN 3.3 "anchor drift").  go/parser + go/ast only.
//
//	anchors -repo /repo -map checks/anchors.json [-out digests.json]
//
// The map (checks/anchors.json) is a list of {"file": "<path relative to the repo>", "funcs": ["(*T).M", "F", ...] or
// ["*"], "props": ["C01", ...]}.  "*" anchors every top-level declaration of the file: functions as "(*T).M" / "F",
// type/var/const declarations as "type T" / "var x".  Output: {"<file>::<decl>": {"digest": "<sha256 prefix>", "props": [...]}}.
// A declaration named in the map but absent from the file gets the digest "absent".
//
// The digest covers node kinds, identifiers, literals and operators in order - not comments, not positions (so
// re-formatting, moving code within a file and editing comments change nothing).  A changed digest is NEVER an
// alarm: checks/common.py compares with checks/anchors.lock.json and only ESCALATES the correspondence budget of the
// properties that own the drifted function.
package main

import (
	"crypto/sha256"
	"encoding/hex"
	"encoding/json"
	"flag"
	"fmt"
	"go/ast"
	"go/parser"
	"go/token"
	"os"
	"path/filepath"
	"reflect"
	"sort"
	"strings"
)

type entry struct {
	File  string   `json:"file"`
	Funcs []string `json:"funcs"`
	Props []string `json:"props"`
}

type result struct {
	Digest string   `json:"digest"`
	Props  []string `json:"props"`
}

var posType = reflect.TypeOf(token.NoPos)

// keep reports whether a struct field takes part in the digest.
func keep(name string, v reflect.Value) bool {
	if v.Type() == posType {
		return false
	}
	switch v.Interface().(type) {
	case *ast.CommentGroup, *ast.Object, *ast.Scope:
		return false
	}
	switch v.Kind() {
	case reflect.Chan, reflect.Func, reflect.Interface, reflect.Map, reflect.Ptr, reflect.Slice:
		return !v.IsNil()
	}
	return true
}

func digest(n ast.Node) string {
	var sb strings.Builder
	if err := ast.Fprint(&sb, nil, n, keep); err != nil {
		return "error:" + err.Error()
	}
	// ast.Fprint prefixes every line with a running line number; it is a function of the content only
	h := sha256.Sum256([]byte(sb.String()))
	return hex.EncodeToString(h[:10])
}

func recvName(fd *ast.FuncDecl) string {
	if fd.Recv == nil || len(fd.Recv.List) == 0 {
		return fd.Name.Name
	}
	t := fd.Recv.List[0].Type
	star := ""
	if s, ok := t.(*ast.StarExpr); ok {
		star, t = "*", s.X
	}
	switch x := t.(type) {
	case *ast.IndexExpr: // generic receiver T[P]
		t = x.X
	case *ast.IndexListExpr:
		t = x.X
	}
	name := "?"
	if id, ok := t.(*ast.Ident); ok {
		name = id.Name
	}
	return "(" + star + name + ")." + fd.Name.Name
}

func declNames(d ast.Decl) []string {
	switch x := d.(type) {
	case *ast.FuncDecl:
		return []string{recvName(x)}
	case *ast.GenDecl:
		if x.Tok == token.IMPORT {
			return nil
		}
		var out []string
		for _, s := range x.Specs {
			switch sp := s.(type) {
			case *ast.TypeSpec:
				out = append(out, "type "+sp.Name.Name)
			case *ast.ValueSpec:
				for _, n := range sp.Names {
					out = append(out, strings.ToLower(x.Tok.String())+" "+n.Name)
				}
			}
		}
		return out
	}
	return nil
}

func main() {
	repo := flag.String("repo", "/repo", "repository root")
	mapFile := flag.String("map", "checks/anchors.json", "anchor map")
	out := flag.String("out", "", "output file (default stdout)")
	flag.Parse()
	raw, err := os.ReadFile(*mapFile)
	if err != nil {
		fmt.Fprintln(os.Stderr, "anchors:", err)
		os.Exit(2)
	}
	var entries []entry
	if err := json.Unmarshal(raw, &entries); err != nil {
		fmt.Fprintln(os.Stderr, "anchors: bad map:", err)
		os.Exit(2)
	}
	res := map[string]*result{}
	add := func(key, dg string, props []string) {
		r := res[key]
		if r == nil {
			r = &result{Digest: dg}
			res[key] = r
		}
		for _, p := range props {
			found := false
			for _, q := range r.Props {
				found = found || q == p
			}
			if !found {
				r.Props = append(r.Props, p)
			}
		}
		sort.Strings(r.Props)
	}
	fset := token.NewFileSet()
	files := map[string]*ast.File{}
	for _, e := range entries {
		f, ok := files[e.File]
		if !ok {
			f, err = parser.ParseFile(fset, filepath.Join(*repo, e.File), nil, parser.SkipObjectResolution)
			if err != nil {
				f = nil // unparsable or missing file: every anchor in it is "absent" (a drift, never an alarm)
			}
			files[e.File] = f
		}
		have := map[string]string{}
		if f != nil {
			for _, d := range f.Decls {
				names := declNames(d)
				if len(names) == 0 {
					continue
				}
				if fd, isFunc := d.(*ast.FuncDecl); isFunc {
					have[names[0]] = digest(fd)
					continue
				}
				// a GenDecl: digest each spec under each of its names
				gd := d.(*ast.GenDecl)
				for _, s := range gd.Specs {
					switch sp := s.(type) {
					case *ast.TypeSpec:
						have["type "+sp.Name.Name] = digest(sp)
					case *ast.ValueSpec:
						for _, n := range sp.Names {
							have[strings.ToLower(gd.Tok.String())+" "+n.Name] = digest(sp)
						}
					}
				}
			}
		}
		all := len(e.Funcs) == 1 && e.Funcs[0] == "*"
		if all {
			if f == nil {
				add(e.File+"::*", "absent", e.Props)
			}
			for name, dg := range have {
				add(e.File+"::"+name, dg, e.Props)
			}
			continue
		}
		for _, name := range e.Funcs {
			dg, ok := have[name]
			if !ok {
				dg = "absent"
			}
			add(e.File+"::"+name, dg, e.Props)
		}
	}
	enc, _ := json.MarshalIndent(res, "", " ")
	if *out == "" {
		fmt.Println(string(enc))
		return
	}
	if err := os.WriteFile(*out, append(enc, '\n'), 0o644); err != nil {
		fmt.Fprintln(os.Stderr, "anchors:", err)
		os.Exit(2)
	}
}
