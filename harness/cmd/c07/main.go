// c07 drives supervisor/lifecycle.StartStop in LOCK-STEP with the Coq model
// (coq/model/Lifecycle.v) and prints one line per execution for the model driver
// (ocaml/c07.ml).
//
// Every Stop() caller and the Run goroutine are real goroutines.  The `verif` yield hooks of
// the lifecycle package park them between the atomic sections of the code; the director
// releases exactly one goroutine per label, waits until every goroutine of the execution is
// either parked at a gate, finished, or *positively observed* by the Go runtime as blocked in
// a channel operation (goroutine status from runtime.Stack -- never a timeout guess), and then
// records what it sees: per caller N(ot entered) / s (blocked in <-startedCh) / P (past the
// startedCh wait, parked before the second critical section) / d (blocked in <-doneCh) /
// R(eturned); per started Run cycle B (blocked in its select) / X (left the select, parked
// at the harness gate before the deferred done()) / F (Run returned); and whether StopCh() is closed.
//
// Waits are taken eagerly: a goroutine released into a wait whose channel is already closed
// runs through to its next gate.  A satisfied wait changes no shared state and can never be
// disabled again, so this loses no interleaving of the critical sections; the model driver
// inserts the corresponding internal labels (LWaitStarted/LWaitDone/LRunSeeStop).
//
// Director labels:  a<k> = LSec1 k   b<k> = LSec2 k   r = LRunStart   o = LRunExitOther
//
//	d = LDone.   Callers enter in index order (symmetry reduction).
//
// Line format:  c07 <K> <M> <tag> init=<obs> <label>=<obs> ... end=<0|1>
//
//	obs = <callers|->/<cycles|->/<0|1>
package main

import (
	"bufio"
	"flag"
	"fmt"
	"os"
	"runtime"
	"sort"
	"strconv"
	"strings"
	"sync"
	"sync/atomic"
	"time"

	"github.com/robbyt/go-supervisor/supervisor/lifecycle"
	"github.com/robbyt/go-supervisor/verif_harness/internal/prng"
)

const (
	stRunning int32 = iota
	stParked
	stDone
)

const (
	ptNone int32 = iota
	ptEnter
	ptSec1
	ptStarted
	ptSec2
	ptRunEnter
	ptStartedSec
	ptDoneClose
)

var pointCode = map[string]int32{
	"stop:sec1": ptSec1, "stop:started": ptStarted, "stop:sec2": ptSec2,
	"started:sec": ptStartedSec,
}

type gor struct {
	ex    *exec
	goid  uint64
	gate  chan struct{}
	state atomic.Int32
	ctr   atomic.Uint64
	last  atomic.Int32
	fin   atomic.Int32 // runner: number of cycles whose Run returned
}

type exec struct {
	lc       *lifecycle.StartStop
	K, M     int
	callers  []*gor
	runner   *gor
	other    []chan struct{}
	started  int // cycles started so far
	entered  int // callers that executed their first section
	draining atomic.Bool
	blocked  map[*gor]string
}

var registry sync.Map // goid -> *gor

func goid() uint64 {
	var buf [64]byte
	n := runtime.Stack(buf[:], false)
	// "goroutine 123 [running]:"
	s := buf[10:n]
	var id uint64
	for _, c := range s {
		if c < '0' || c > '9' {
			break
		}
		id = id*10 + uint64(c-'0')
	}
	return id
}

func yield(point string) {
	v, ok := registry.Load(goid())
	if !ok {
		return
	}
	g := v.(*gor)
	code := pointCode[point]
	if code == ptStarted {
		g.park(code)
		return
	}
	g.last.Store(code)
	g.ctr.Add(1)
}

func (g *gor) park(code int32) {
	g.last.Store(code)
	if g.ex.draining.Load() {
		g.ctr.Add(1)
		return
	}
	g.state.Store(stParked)
	g.ctr.Add(1)
	<-g.gate
}

func (g *gor) release() {
	g.state.Store(stRunning)
	g.ctr.Add(1)
	g.gate <- struct{}{}
}

// runCycle is Run() of a runnable built on StartStop, exactly as the bundled ones use it:
// Started first, done deferred, StopCh in the main select.  The Run body is harness code, so
// the gate before the deferred done() is a harness gate (the library has no yield point
// there): LDone = the director releases it, Run returns, done() runs to completion.
func runCycle(g *gor, lc *lifecycle.StartStop, other <-chan struct{}) {
	done := lc.Started()
	defer done()
	select {
	case <-lc.StopCh():
	case <-other:
	}
	g.park(ptDoneClose)
}

func newExec(K, M int) *exec {
	e := &exec{lc: lifecycle.New(), K: K, M: M, blocked: map[*gor]string{}}
	var wg sync.WaitGroup
	mk := func(body func(g *gor)) *gor {
		g := &gor{ex: e, gate: make(chan struct{})}
		wg.Add(1)
		go func() {
			g.goid = goid()
			registry.Store(g.goid, g)
			wg.Done()
			body(g)
			g.state.Store(stDone)
			g.ctr.Add(1)
			registry.Delete(g.goid)
		}()
		return g
	}
	for i := 0; i < K; i++ {
		e.callers = append(e.callers, mk(func(g *gor) {
			g.park(ptEnter)
			e.lc.Stop()
		}))
	}
	for r := 0; r < M; r++ {
		e.other = append(e.other, make(chan struct{}))
	}
	e.runner = mk(func(g *gor) {
		for r := 0; r < M; r++ {
			g.park(ptRunEnter)
			runCycle(g, e.lc, e.other[r])
			g.fin.Store(int32(r + 1))
		}
	})
	wg.Wait()
	return e
}

func (e *exec) all() []*gor { return append(append([]*gor{}, e.callers...), e.runner) }

var stackBuf = make([]byte, 1<<16)

// statuses returns goroutine id -> runtime status ("chan receive", "select", "runnable", ...).
func statuses() map[uint64]string {
	var n int
	for {
		n = runtime.Stack(stackBuf, true)
		if n < len(stackBuf) {
			break
		}
		stackBuf = make([]byte, 2*len(stackBuf))
	}
	out := map[uint64]string{}
	s := stackBuf[:n]
	i := 0
	for i < len(s) {
		// at the start of a line
		if len(s)-i > 10 && string(s[i:i+10]) == "goroutine " {
			j := i + 10
			var id uint64
			for j < len(s) && s[j] >= '0' && s[j] <= '9' {
				id = id*10 + uint64(s[j]-'0')
				j++
			}
			if j+2 < len(s) && s[j] == ' ' && s[j+1] == '[' {
				k := j + 2
				for k < len(s) && s[k] != ']' && s[k] != ',' && s[k] != '\n' {
					k++
				}
				out[id] = string(s[j+2 : k])
			}
		}
		for i < len(s) && s[i] != '\n' {
			i++
		}
		i++
	}
	return out
}

func isBlockedStatus(st string) bool {
	return strings.HasPrefix(st, "chan receive") || st == "select" || strings.HasPrefix(st, "select ")
}

// settle waits until every goroutine of the execution is parked, done, or observed blocked.
func (e *exec) settle() error {
	gs := e.all()
	deadline := time.Now().Add(10 * time.Second)
	for iter := 0; ; iter++ {
		var pend []*gor
		for _, g := range gs {
			if g.state.Load() == stRunning {
				pend = append(pend, g)
			}
		}
		for k := range e.blocked {
			delete(e.blocked, k)
		}
		if len(pend) == 0 {
			return nil
		}
		if iter < 2 {
			runtime.Gosched()
			continue
		}
		c1 := make([]uint64, len(pend))
		for i, g := range pend {
			c1[i] = g.ctr.Load()
		}
		st := statuses()
		ok := true
		for i, g := range pend {
			s := st[g.goid]
			if !isBlockedStatus(s) || g.ctr.Load() != c1[i] || g.state.Load() != stRunning {
				ok = false
				break
			}
			e.blocked[g] = s
		}
		if ok {
			return nil
		}
		if time.Now().After(deadline) {
			var sb strings.Builder
			for _, g := range pend {
				fmt.Fprintf(&sb, " g%d[%s last=%d]", g.goid, st[g.goid], g.last.Load())
			}
			return fmt.Errorf("goroutines did not settle:%s", sb.String())
		}
		if iter > 50 {
			time.Sleep(20 * time.Microsecond)
		} else {
			runtime.Gosched()
		}
	}
}

func (e *exec) obs() string {
	var cs, cy strings.Builder
	for _, g := range e.callers {
		c := byte('?')
		switch g.state.Load() {
		case stDone:
			c = 'R'
		case stParked:
			switch g.last.Load() {
			case ptEnter:
				c = 'N'
			case ptStarted:
				c = 'P'
			}
		case stRunning:
			if strings.HasPrefix(e.blocked[g], "chan receive") {
				switch g.last.Load() {
				case ptSec1:
					c = 's'
				case ptSec2:
					c = 'd'
				}
			}
		}
		cs.WriteByte(c)
	}
	fin := int(e.runner.fin.Load())
	for r := 0; r < e.started; r++ {
		c := byte('?')
		if r < fin {
			c = 'F'
		} else {
			switch e.runner.state.Load() {
			case stParked:
				if e.runner.last.Load() == ptDoneClose {
					c = 'X'
				}
			case stRunning:
				if strings.HasPrefix(e.blocked[e.runner], "select") && e.runner.last.Load() == ptStartedSec {
					c = 'B'
				}
			}
		}
		cy.WriteByte(c)
	}
	sc := "0"
	select {
	case <-e.lc.StopCh():
		sc = "1"
	default:
	}
	a, b := cs.String(), cy.String()
	if a == "" {
		a = "-"
	}
	if b == "" {
		b = "-"
	}
	return a + "/" + b + "/" + sc
}

// enabled lists the director labels that can be performed now.
func (e *exec) enabled() []string {
	var out []string
	for k, g := range e.callers {
		if g.state.Load() == stParked {
			switch g.last.Load() {
			case ptEnter:
				if k == e.entered {
					out = append(out, "a"+strconv.Itoa(k))
				}
			case ptStarted:
				out = append(out, "b"+strconv.Itoa(k))
			}
		}
	}
	r := e.runner
	switch r.state.Load() {
	case stParked:
		switch r.last.Load() {
		case ptRunEnter:
			out = append(out, "r")
		case ptDoneClose:
			out = append(out, "d")
		}
	case stRunning:
		if _, ok := e.blocked[r]; ok {
			out = append(out, "o")
		}
	}
	return out
}

func (e *exec) do(label string) error {
	switch label[0] {
	case 'a', 'b':
		k, err := strconv.Atoi(label[1:])
		if err != nil || k < 0 || k >= len(e.callers) {
			return fmt.Errorf("bad label %q", label)
		}
		g := e.callers[k]
		want := ptEnter
		if label[0] == 'b' {
			want = ptStarted
		}
		if g.state.Load() != stParked || g.last.Load() != want {
			return fmt.Errorf("label %s not enabled", label)
		}
		if label[0] == 'a' {
			e.entered++
		}
		g.release()
	case 'r':
		if e.runner.state.Load() != stParked || e.runner.last.Load() != ptRunEnter {
			return fmt.Errorf("label r not enabled")
		}
		e.started++
		e.runner.release()
	case 'd':
		if e.runner.state.Load() != stParked || e.runner.last.Load() != ptDoneClose {
			return fmt.Errorf("label d not enabled")
		}
		e.runner.release()
	case 'o':
		if _, ok := e.blocked[e.runner]; !ok || e.started == 0 {
			return fmt.Errorf("label o not enabled")
		}
		close(e.other[e.started-1])
	default:
		return fmt.Errorf("bad label %q", label)
	}
	return e.settle()
}

var leaked int

// drain lets every goroutine of the execution run to completion (nothing is recorded).
func (e *exec) drain() {
	e.draining.Store(true)
	for _, ch := range e.other {
		select {
		case <-ch:
		default:
			close(ch)
		}
	}
	for _, g := range e.all() {
		if g.state.Load() == stParked {
			g.release()
		}
	}
	alldone := func() bool {
		for _, g := range e.all() {
			if g.state.Load() != stDone {
				return false
			}
		}
		return true
	}
	deadline := time.Now().Add(2 * time.Second)
	for i := 0; !alldone(); i++ {
		if e.runner.state.Load() == stDone {
			// callers may still wait for a Run: give them throw-away cycles
			d := e.lc.Started()
			d()
		}
		if time.Now().After(deadline) {
			leaked++
			return
		}
		if i > 20 {
			time.Sleep(50 * time.Microsecond)
		} else {
			runtime.Gosched()
		}
	}
}

// one execution following `pick`; returns the output line
func execute(K, M int, tag string, pick func(step int, opts []string) (string, bool)) (string, error) {
	e := newExec(K, M)
	defer e.drain()
	if err := e.settle(); err != nil {
		return "", err
	}
	var sb strings.Builder
	fmt.Fprintf(&sb, "c07 %d %d %s init=%s", K, M, tag, e.obs())
	end := 0
	for step := 0; ; step++ {
		opts := e.enabled()
		if len(opts) == 0 {
			end = 1
			break
		}
		l, ok := pick(step, opts)
		if !ok {
			break
		}
		if err := e.do(l); err != nil {
			return sb.String(), fmt.Errorf("%v (after %s)", err, sb.String())
		}
		fmt.Fprintf(&sb, " %s=%s", l, e.obs())
	}
	fmt.Fprintf(&sb, " end=%d", end)
	return sb.String(), nil
}

// dfs enumerates every maximal execution below the choice prefix `pre` (stateless search:
// each execution is run afresh; the odometer `path` remembers (choice, #options) per depth).
func dfs(w *bufio.Writer, K, M int, pre []string, limit int) (int, error) {
	type node struct{ i, n int }
	var path []node
	count := 0
	for {
		var cur []node
		line, err := execute(K, M, "dfs", func(step int, opts []string) (string, bool) {
			if step < len(pre) {
				for _, o := range opts {
					if o == pre[step] {
						return o, true
					}
				}
				return "", false
			}
			d := step - len(pre)
			i := 0
			if d < len(path) {
				i = path[d].i
			}
			if i >= len(opts) {
				i = len(opts) - 1
			}
			cur = append(cur, node{i, len(opts)})
			return opts[i], true
		})
		if err != nil {
			return count, err
		}
		fmt.Fprintln(w, line)
		count++
		if limit > 0 && count >= limit {
			return count, nil
		}
		// advance the odometer
		path = cur
		for len(path) > 0 && path[len(path)-1].i+1 >= path[len(path)-1].n {
			path = path[:len(path)-1]
		}
		if len(path) == 0 {
			return count, nil
		}
		path[len(path)-1].i++
	}
}

// prefixes returns all choice prefixes of length depth (or shorter maximal ones).
func prefixes(K, M, depth int) ([][]string, error) {
	var out [][]string
	var rec func(pre []string) error
	rec = func(pre []string) error {
		var opts []string
		_, err := execute(K, M, "probe", func(step int, o []string) (string, bool) {
			if step < len(pre) {
				return pre[step], true
			}
			opts = append([]string{}, o...)
			return "", false
		})
		if err != nil {
			return err
		}
		if len(pre) == depth || len(opts) == 0 {
			out = append(out, append([]string{}, pre...))
			return nil
		}
		for _, o := range opts {
			if err := rec(append(append([]string{}, pre...), o)); err != nil {
				return err
			}
		}
		return nil
	}
	err := rec(nil)
	return out, err
}

func main() {
	mode := flag.String("mode", "dfs", "dfs | random | sched | runners")
	K := flag.Int("k", 2, "Stop callers")
	M := flag.Int("m", 2, "Run cycles")
	shard := flag.Int("shard", 0, "")
	shards := flag.Int("shards", 1, "")
	n := flag.Int("n", 1000, "random executions")
	seed := flag.Uint64("seed", 1, "")
	sched := flag.String("sched", "", "space separated director labels")
	limit := flag.Int("limit", 0, "stop after this many executions (0 = all)")
	flag.Parse()
	lifecycle.VerifYield = yield
	w := bufio.NewWriterSize(os.Stdout, 1<<20)
	defer w.Flush()
	fail := func(err error) {
		w.Flush()
		fmt.Fprintln(os.Stderr, "c07 harness error:", err)
		os.Exit(3)
	}
	switch *mode {
	case "dfs":
		depth := 5
		pres, err := prefixes(*K, *M, depth)
		if err != nil {
			fail(err)
		}
		sort.Slice(pres, func(i, j int) bool { return strings.Join(pres[i], " ") < strings.Join(pres[j], " ") })
		total := 0
		for i, p := range pres {
			if i%*shards != *shard {
				continue
			}
			c, err := dfs(w, *K, *M, p, *limit)
			total += c
			if err != nil {
				fail(err)
			}
		}
		fmt.Fprintf(os.Stderr, "c07 dfs k=%d m=%d shard=%d/%d prefixes=%d executions=%d leaked=%d\n",
			*K, *M, *shard, *shards, len(pres), total, leaked)
	case "random":
		r := prng.New(*seed)
		for i := 0; i < *n; i++ {
			k := 1 + r.Intn(*K)
			m := 1 + r.Intn(*M)
			rr := r.Fork()
			line, err := execute(k, m, "rand", func(step int, opts []string) (string, bool) {
				return opts[rr.Intn(len(opts))], true
			})
			if err != nil {
				fail(err)
			}
			fmt.Fprintln(w, line)
		}
	case "sched":
		labs := strings.Fields(*sched)
		line, err := execute(*K, *M, "sched", func(step int, opts []string) (string, bool) {
			if step >= len(labs) {
				return "", false
			}
			for _, o := range opts {
				if o == labs[step] {
					return o, true
				}
			}
			// not enabled on the implementation: stop here, the model driver checks it agrees
			return "", false
		})
		if err != nil {
			fail(err)
		}
		fmt.Fprintln(w, line)
	case "runners":
		if err := runnersSmoke(w); err != nil {
			fail(err)
		}
	default:
		fail(fmt.Errorf("unknown mode %q", *mode))
	}
}
