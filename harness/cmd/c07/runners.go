package main

// Smoke family for the three bundled runnables built on StartStop (real time, no hooks):
// Stop before / during / after Run, two concurrent Stops, two Run cycles.  Checked: Stop()
// does not return while the Run() it targets has not been invoked or has not returned, and it
// does return once Run has.  One output line per scenario:
//   runner <kind> <scenario> ok|FAIL <detail>

import (
	"bufio"
	"context"
	"fmt"
	"io"
	"log/slog"
	"net"
	"net/http"
	"sync/atomic"
	"time"

	"github.com/robbyt/go-supervisor/runnables/composite"
	"github.com/robbyt/go-supervisor/runnables/httpcluster"
	"github.com/robbyt/go-supervisor/runnables/httpserver"
)

type rs interface {
	Run(ctx context.Context) error
	Stop()
}

// child of the composite: Run blocks until ctx is done or Stop; Stop is slow (so that an
// early return of the composite's Stop would be visible).
type slowChild struct {
	stop chan struct{}
}

func (c *slowChild) String() string { return "slowChild" }
func (c *slowChild) Run(ctx context.Context) error {
	select {
	case <-ctx.Done():
	case <-c.stop:
	}
	time.Sleep(400 * time.Millisecond)
	return nil
}
func (c *slowChild) Stop() {
	select {
	case <-c.stop:
	default:
		close(c.stop)
	}
}

var quiet = slog.NewTextHandler(io.Discard, nil)

func freeAddr() string {
	l, err := net.Listen("tcp", "127.0.0.1:0")
	if err != nil {
		return "127.0.0.1:18099"
	}
	a := l.Addr().String()
	l.Close()
	return a
}

// slowSrv makes the teardown of an HTTP server slow: its handler parks for 500 ms, and preStop()
// puts one request in flight (and waits until the handler was entered) right before the scenario
// calls Stop(), so that the server's graceful drain - hence Run() - outlasts the grace period by a
// wide margin.  A Stop() that returned before that Run() did is then seen as such.
type slowSrv struct {
	addr    string
	entered atomic.Int64
}

func (s *slowSrv) handler(w http.ResponseWriter, r *http.Request) {
	s.entered.Add(1)
	time.Sleep(500 * time.Millisecond)
}

func (s *slowSrv) config() (*httpserver.Config, error) {
	rt, err := httpserver.NewRouteFromHandlerFunc("ok", "/", s.handler)
	if err != nil {
		return nil, err
	}
	return httpserver.NewConfig(s.addr, httpserver.Routes{*rt})
}

// preStop: one request in flight, if the server answers at all (it does not after a refused second
// Run cycle or before the first Run - then there is nothing to slow down).
func (s *slowSrv) preStop() {
	before := s.entered.Load()
	if !waitFor(time.Second, func() bool {
		c, err := net.DialTimeout("tcp", s.addr, 50*time.Millisecond)
		if err != nil {
			return false
		}
		c.Close()
		return true
	}) {
		return
	}
	go func() {
		resp, err := http.Get("http://" + s.addr + "/")
		if err == nil {
			resp.Body.Close()
		}
	}()
	waitFor(time.Second, func() bool { return s.entered.Load() > before })
}

type httpRS struct {
	*httpserver.Runner
	*slowSrv
}

type clusterRS struct {
	*httpcluster.Runner
	*slowSrv
	pushed atomic.Bool
}

// the cluster gets one real httpserver child with the slow handler (pushed once, after Run started)
func (c *clusterRS) preStop() {
	if !c.pushed.Load() {
		cfg, err := c.slowSrv.config()
		if err == nil {
			select {
			case c.Runner.GetConfigSiphon() <- map[string]*httpserver.Config{"slow": cfg}:
				c.pushed.Store(true)
			case <-time.After(500 * time.Millisecond):
			}
		}
	}
	c.slowSrv.preStop()
}

type preStopper interface{ preStop() }

func mkRunner(kind string) (rs, error) {
	switch kind {
	case "composite":
		ch := &slowChild{stop: make(chan struct{})}
		cb := func() (*composite.Config[*slowChild], error) {
			return composite.NewConfigFromRunnables("c07", []*slowChild{ch}, nil)
		}
		return composite.NewRunner(cb, composite.WithLogHandler[*slowChild](quiet))
	case "httpserver":
		ss := &slowSrv{addr: freeAddr()}
		cfg, err := ss.config()
		if err != nil {
			return nil, err
		}
		r, err := httpserver.NewRunner(httpserver.WithConfig(cfg), httpserver.WithLogHandler(quiet))
		if err != nil {
			return nil, err
		}
		return &httpRS{Runner: r, slowSrv: ss}, nil
	case "httpcluster":
		r, err := httpcluster.NewRunner(httpcluster.WithLogHandler(quiet))
		if err != nil {
			return nil, err
		}
		return &clusterRS{Runner: r, slowSrv: &slowSrv{addr: freeAddr()}}, nil
	}
	return nil, fmt.Errorf("unknown kind %s", kind)
}

type cycle struct {
	invoked  atomic.Bool
	returned atomic.Bool
	cancel   context.CancelFunc
}

func startRun(r rs) *cycle {
	c := &cycle{}
	ctx, cancel := context.WithCancel(context.Background())
	c.cancel = cancel
	c.invoked.Store(true)
	go func() {
		_ = r.Run(ctx)
		c.returned.Store(true)
	}()
	return c
}

func waitFor(d time.Duration, f func() bool) bool {
	end := time.Now().Add(d)
	for time.Now().Before(end) {
		if f() {
			return true
		}
		time.Sleep(time.Millisecond)
	}
	return f()
}

func startStop(r rs) *atomic.Bool {
	var ret atomic.Bool
	if p, ok := r.(preStopper); ok {
		p.preStop()
	}
	go func() {
		r.Stop()
		ret.Store(true)
	}()
	return &ret
}

const grace = 200 * time.Millisecond

// after Stop returned, the targeted Run must have returned (grace: the Run goroutine needs a
// moment to set its flag after the deferred done()).
func afterRun(stopRet *atomic.Bool, c *cycle) string {
	if !waitFor(5*time.Second, stopRet.Load) {
		return "Stop did not return within 5s although Run was invoked"
	}
	if !waitFor(grace, c.returned.Load) {
		return "Stop returned but the Run it targets has not returned"
	}
	return ""
}

func scenario(kind, name string) string {
	r, err := mkRunner(kind)
	if err != nil {
		return "cannot build runner: " + err.Error()
	}
	switch name {
	case "stop-before-run":
		s := startStop(r)
		time.Sleep(50 * time.Millisecond)
		if s.Load() {
			return "Stop returned before Run was ever invoked"
		}
		c := startRun(r)
		return afterRun(s, c)
	case "stop-during-run":
		c := startRun(r)
		time.Sleep(150 * time.Millisecond)
		if c.returned.Load() {
			return "Run returned by itself (scenario broken)"
		}
		s := startStop(r)
		return afterRun(s, c)
	case "stop-after-run":
		c := startRun(r)
		time.Sleep(150 * time.Millisecond)
		c.cancel()
		if !waitFor(5*time.Second, c.returned.Load) {
			return "Run did not return after ctx cancel (scenario broken)"
		}
		s := startStop(r)
		if !waitFor(time.Second, s.Load) {
			return "Stop blocks although the last Run has finished"
		}
		return ""
	case "two-stops":
		c := startRun(r)
		time.Sleep(150 * time.Millisecond)
		s1, s2 := startStop(r), startStop(r)
		if m := afterRun(s1, c); m != "" {
			return m
		}
		return afterRun(s2, c)
	case "two-cycles":
		c1 := startRun(r)
		time.Sleep(150 * time.Millisecond)
		if m := afterRun(startStop(r), c1); m != "" {
			return "cycle 1: " + m
		}
		if !waitFor(time.Second, c1.returned.Load) {
			return "cycle 1: Run did not return"
		}
		c2 := startRun(r)
		time.Sleep(100 * time.Millisecond)
		// the second Run may have failed at once (FSM is not in New): Stop must still return
		// only after it, and must return.
		if m := afterRun(startStop(r), c2); m != "" {
			return "cycle 2: " + m
		}
		return ""
	}
	return "unknown scenario"
}

func runnersSmoke(w *bufio.Writer) error {
	for _, kind := range []string{"composite", "httpserver", "httpcluster"} {
		for _, sc := range []string{"stop-before-run", "stop-during-run", "stop-after-run", "two-stops", "two-cycles"} {
			msg := scenario(kind, sc)
			st := "ok"
			if msg != "" {
				st = "FAIL"
			}
			fmt.Fprintf(w, "runner %s %s %s %s\n", kind, sc, st, msg)
		}
	}
	return nil
}
