// c15 compiles generated middleware programs into real httpserver.HandlerFunc closures, runs them
// through Route.ServeHTTP on an httptest.ResponseRecorder and prints one line per program:
//
//	PROG <TAB> OBS
//
// for the model driver (see /verif/ocaml/c15.ml for the grammar of both halves).
package main

import (
	"bufio"
	"context"
	"encoding/hex"
	"flag"
	"fmt"
	"log/slog"
	"net/http"
	"net/http/httptest"
	"os"
	"reflect"
	"sort"
	"strconv"
	"strings"

	"github.com/robbyt/go-supervisor/runnables/httpserver"
	"github.com/robbyt/go-supervisor/runnables/httpserver/middleware/headers"
	"github.com/robbyt/go-supervisor/runnables/httpserver/middleware/logger"
	"github.com/robbyt/go-supervisor/runnables/httpserver/middleware/metrics"
	"github.com/robbyt/go-supervisor/runnables/httpserver/middleware/recovery"
	"github.com/robbyt/go-supervisor/runnables/httpserver/middleware/state"
	"github.com/robbyt/go-supervisor/runnables/httpserver/middleware/wildcard"
	"github.com/robbyt/go-supervisor/verif_harness/internal/prng"
)

// ---------------------------------------------------------------------------- programs

type action struct {
	op   byte // N A R ! H W S P X
	code int
	data string
	k, v int
}

type handler struct {
	kind             string // U REC HDR OPS ST WC LOG MET
	acts             []action
	kvs, sets, adds  [][2]int
	dels             []int
	v                int
	pfx              string
}

type prog struct {
	method, path string
	final        bool
	hs           []handler
}

func kvStr(kvs [][2]int) string {
	s := make([]string, len(kvs))
	for i, kv := range kvs {
		s[i] = fmt.Sprintf("%d=%d", kv[0], kv[1])
	}
	return strings.Join(s, ".")
}

func (a action) String() string {
	switch a.op {
	case 'H':
		return "H" + strconv.Itoa(a.code)
	case 'W':
		return "W" + a.data
	case 'S', 'P':
		return fmt.Sprintf("%c%d=%d", a.op, a.k, a.v)
	case 'X':
		return "X" + strconv.Itoa(a.k)
	}
	return string(a.op)
}

func (h handler) String() string {
	switch h.kind {
	case "U":
		s := make([]string, len(h.acts))
		for i, a := range h.acts {
			s[i] = a.String()
		}
		return "U:" + strings.Join(s, ",")
	case "HDR":
		return "HDR:" + kvStr(h.kvs)
	case "OPS":
		d := make([]string, len(h.dels))
		for i, k := range h.dels {
			d[i] = strconv.Itoa(k)
		}
		return "OPS:" + strings.Join(d, ".") + "/" + kvStr(h.sets) + "/" + kvStr(h.adds)
	case "ST":
		return "ST" + strconv.Itoa(h.v)
	case "WC":
		return "WC:" + h.pfx
	}
	return h.kind
}

func (p prog) String() string {
	s := make([]string, len(p.hs))
	for i, h := range p.hs {
		s[i] = h.String()
	}
	f := "0"
	if p.final {
		f = "1"
	}
	return fmt.Sprintf("m=%s p=%s f=%s c=%s", p.method, p.path, f, strings.Join(s, "|"))
}

func parseKVs(s string) ([][2]int, error) {
	var out [][2]int
	if s == "" {
		return out, nil
	}
	for _, kv := range strings.Split(s, ".") {
		t := strings.Split(kv, "=")
		if len(t) != 2 {
			return nil, fmt.Errorf("bad kv %q", kv)
		}
		k, e1 := strconv.Atoi(t[0])
		v, e2 := strconv.Atoi(t[1])
		if e1 != nil || e2 != nil {
			return nil, fmt.Errorf("bad kv %q", kv)
		}
		out = append(out, [2]int{k, v})
	}
	return out, nil
}

func parseAction(s string) (action, error) {
	if s == "" {
		return action{}, fmt.Errorf("empty action")
	}
	a := action{op: s[0]}
	rest := s[1:]
	var err error
	switch a.op {
	case 'N', 'A', 'R', '!':
		if rest != "" {
			err = fmt.Errorf("bad action %q", s)
		}
	case 'H':
		a.code, err = strconv.Atoi(rest)
	case 'W':
		a.data = rest
	case 'S', 'P':
		var kv [][2]int
		kv, err = parseKVs(rest)
		if err == nil && len(kv) == 1 {
			a.k, a.v = kv[0][0], kv[0][1]
		} else if err == nil {
			err = fmt.Errorf("bad action %q", s)
		}
	case 'X':
		a.k, err = strconv.Atoi(rest)
	default:
		err = fmt.Errorf("bad action %q", s)
	}
	return a, err
}

func parseHandler(s string) (handler, error) {
	var h handler
	var err error
	switch {
	case strings.HasPrefix(s, "U:"):
		h.kind = "U"
		if s[2:] != "" {
			for _, as := range strings.Split(s[2:], ",") {
				a, e := parseAction(as)
				if e != nil {
					return h, e
				}
				h.acts = append(h.acts, a)
			}
		}
	case s == "REC" || s == "LOG" || s == "MET":
		h.kind = s
	case strings.HasPrefix(s, "HDR:"):
		h.kind = "HDR"
		h.kvs, err = parseKVs(s[4:])
	case strings.HasPrefix(s, "OPS:"):
		h.kind = "OPS"
		t := strings.Split(s[4:], "/")
		if len(t) != 3 {
			return h, fmt.Errorf("bad OPS %q", s)
		}
		if t[0] != "" {
			for _, d := range strings.Split(t[0], ".") {
				k, e := strconv.Atoi(d)
				if e != nil {
					return h, e
				}
				h.dels = append(h.dels, k)
			}
		}
		if h.sets, err = parseKVs(t[1]); err != nil {
			return h, err
		}
		h.adds, err = parseKVs(t[2])
	case strings.HasPrefix(s, "ST"):
		h.kind = "ST"
		h.v, err = strconv.Atoi(s[2:])
	case strings.HasPrefix(s, "WC:"):
		h.kind = "WC"
		h.pfx = s[3:]
	default:
		err = fmt.Errorf("bad handler %q", s)
	}
	return h, err
}

func parseProg(s string) (prog, error) {
	var p prog
	t := strings.Split(s, " ")
	if len(t) != 4 || !strings.HasPrefix(t[0], "m=") || !strings.HasPrefix(t[1], "p=") ||
		!strings.HasPrefix(t[2], "f=") || !strings.HasPrefix(t[3], "c=") {
		return p, fmt.Errorf("bad program %q", s)
	}
	p.method, p.path, p.final = t[0][2:], t[1][2:], t[2][2:] == "1"
	for _, hs := range strings.Split(t[3][2:], "|") {
		h, err := parseHandler(hs)
		if err != nil {
			return p, err
		}
		p.hs = append(p.hs, h)
	}
	if p.final && !finalEligible(p.hs) {
		return p, fmt.Errorf("f=1 needs a last user handler without N/A")
	}
	return p, nil
}

// the last handler can be installed as a plain http.HandlerFunc only if it never touches the processor
func finalEligible(hs []handler) bool {
	l := hs[len(hs)-1]
	if l.kind != "U" {
		return false
	}
	for _, a := range l.acts {
		if a.op == 'N' || a.op == 'A' {
			return false
		}
	}
	return true
}

// ---------------------------------------------------------------------------- names

var keyNames = map[int]string{0: "Content-Type", 1: "X-Content-Type-Options", 2: "Content-Length", 3: "X-Server-State"}
var valNames = map[int]string{0: "text/plain; charset=utf-8", 1: "nosniff"}

func keyName(k int) string {
	if s, ok := keyNames[k]; ok {
		return s
	}
	return "X-K" + strconv.Itoa(k)
}

func valName(v int) string {
	if s, ok := valNames[v]; ok {
		return s
	}
	return "v" + strconv.Itoa(v)
}

func keyID(s string) int {
	for k, n := range keyNames {
		if n == s {
			return k
		}
	}
	if strings.HasPrefix(s, "X-K") {
		if k, err := strconv.Atoi(s[3:]); err == nil {
			return k
		}
	}
	return -1
}

func valID(s string) int {
	for k, n := range valNames {
		if n == s {
			return k
		}
	}
	if strings.HasPrefix(s, "v") {
		if k, err := strconv.Atoi(s[1:]); err == nil {
			return k
		}
	}
	return -1
}

func hdrStr(h http.Header) string {
	type ent struct {
		k  int
		vs string
	}
	var es []ent
	for name, vals := range h {
		ids := make([]string, len(vals))
		for i, v := range vals {
			ids[i] = strconv.Itoa(valID(v))
		}
		es = append(es, ent{keyID(name), strings.Join(ids, ".")})
	}
	sort.Slice(es, func(i, j int) bool { return es[i].k < es[j].k })
	s := make([]string, len(es))
	for i, e := range es {
		s[i] = fmt.Sprintf("%d:%s", e.k, e.vs)
	}
	return strings.Join(s, ";")
}

// ---------------------------------------------------------------------------- running

type run struct {
	tr       []string
	rp       *httpserver.RequestProcessor
	w        httpserver.ResponseWriter
	metStack []int
}

var cur *run // the run metrics.New's slog.Debug belongs to

func b2s(b bool) string {
	if b {
		return "1"
	}
	return "0"
}

func (r *run) log(s string) { r.tr = append(r.tr, s) }

func (r *run) obs(i int, rp *httpserver.RequestProcessor, w httpserver.ResponseWriter) {
	ab := "-"
	if rp != nil {
		ab = b2s(rp.IsAborted())
	}
	r.log(fmt.Sprintf("O%d:%d:%s:%d:%s", i, w.Status(), b2s(w.Written()), w.Size(), ab))
}

// capture is the slog.Handler handed to logger.New (and installed as the default for metrics.New)
type capture struct {
	r    *run
	i    int
	kind byte
}

func (c *capture) Enabled(context.Context, slog.Level) bool { return true }
func (c *capture) WithAttrs([]slog.Attr) slog.Handler       { return c }
func (c *capture) WithGroup(string) slog.Handler            { return c }
func (c *capture) Handle(_ context.Context, rec slog.Record) error {
	status, size := int64(-1), int64(-1)
	rec.Attrs(func(a slog.Attr) bool {
		switch a.Key {
		case "status":
			status = a.Value.Int64()
		case "size":
			size = a.Value.Int64()
		}
		return true
	})
	if c.kind == 'L' {
		c.r.log(fmt.Sprintf("L%d:%d:%d", c.i, status, size))
		return nil
	}
	r := cur
	if r == nil || len(r.metStack) == 0 {
		return nil
	}
	r.log(fmt.Sprintf("M%d:%d", r.metStack[len(r.metStack)-1], status))
	return nil
}

// body runs the actions of user handler i; rp is nil when it runs as the plain http.HandlerFunc
func (r *run) body(i int, acts []action, rp *httpserver.RequestProcessor, w httpserver.ResponseWriter) {
	for _, a := range acts {
		switch a.op {
		case 'N':
			r.log(fmt.Sprintf("N%d", i))
			rp.Next()
			r.log(fmt.Sprintf("n%d", i))
		case 'A':
			rp.Abort()
			r.log(fmt.Sprintf("A%d", i))
		case 'R':
			return
		case '!':
			panic("boom")
		case 'H':
			w.WriteHeader(a.code)
		case 'W':
			_, _ = w.Write([]byte(a.data))
		case 'S':
			w.Header().Set(keyName(a.k), valName(a.v))
		case 'P':
			w.Header().Add(keyName(a.k), valName(a.v))
		case 'X':
			w.Header().Del(keyName(a.k))
		}
		r.obs(i, rp, w)
	}
}

func (r *run) unwind(i int) {
	if e := recover(); e != nil {
		r.log(fmt.Sprintf("U%d", i))
		panic(e)
	}
}

func (r *run) compile(i int, h handler) httpserver.HandlerFunc {
	if h.kind == "U" {
		return func(rp *httpserver.RequestProcessor) {
			r.rp, r.w = rp, rp.Writer()
			r.log(fmt.Sprintf("E%d", i))
			defer r.unwind(i)
			r.body(i, h.acts, rp, rp.Writer())
			r.log(fmt.Sprintf("X%d", i))
		}
	}
	var real httpserver.HandlerFunc
	switch h.kind {
	case "REC":
		real = recovery.New(nil)
	case "HDR":
		hh := http.Header{}
		for _, kv := range h.kvs {
			hh[keyName(kv[0])] = append(hh[keyName(kv[0])], valName(kv[1]))
		}
		real = headers.New(hh)
	case "OPS":
		dels := make([]string, len(h.dels))
		for j, k := range h.dels {
			dels[j] = keyName(k)
		}
		sets, adds := http.Header{}, http.Header{}
		for _, kv := range h.sets {
			sets[keyName(kv[0])] = []string{valName(kv[1])}
		}
		for _, kv := range h.adds {
			adds[keyName(kv[0])] = append(adds[keyName(kv[0])], valName(kv[1]))
		}
		real = headers.NewWithOperations(headers.WithRemove(dels...), headers.WithSet(sets), headers.WithAdd(adds))
	case "ST":
		v := h.v
		real = state.New(func() string { return valName(v) })
	case "WC":
		real = wildcard.New(h.pfx)
	case "LOG":
		real = logger.New(&capture{r: r, i: i, kind: 'L'})
	case "MET":
		real = metrics.New()
	}
	return func(rp *httpserver.RequestProcessor) {
		r.rp, r.w = rp, rp.Writer()
		r.log(fmt.Sprintf("E%d", i))
		defer r.unwind(i)
		if h.kind == "MET" {
			r.metStack = append(r.metStack, i)
			defer func() { r.metStack = r.metStack[:len(r.metStack)-1] }()
		}
		real(rp)
		r.log(fmt.Sprintf("X%d", i))
	}
}

func runProg(p prog) string {
	r := &run{}
	cur = r
	n := len(p.hs)
	var route *httpserver.Route
	var err error
	if p.final {
		mws := make([]httpserver.HandlerFunc, n-1)
		for i := 0; i < n-1; i++ {
			mws[i] = r.compile(i, p.hs[i])
		}
		last := p.hs[n-1]
		hf := func(w http.ResponseWriter, _ *http.Request) {
			rw := w.(httpserver.ResponseWriter)
			r.w = rw
			r.log(fmt.Sprintf("E%d", n-1))
			defer r.unwind(n - 1)
			r.body(n-1, last.acts, nil, rw)
			r.log(fmt.Sprintf("X%d", n-1))
		}
		route, err = httpserver.NewRouteFromHandlerFunc("r", "/", hf, mws...)
	} else {
		// the public constructor appends the adaptor of an http.HandlerFunc; a chain whose last element
		// uses the processor is installed through the exported Handlers field
		route, err = httpserver.NewRouteFromHandlerFunc("r", "/", func(http.ResponseWriter, *http.Request) {})
		if err == nil {
			hs := make([]httpserver.HandlerFunc, n)
			for i := 0; i < n; i++ {
				hs[i] = r.compile(i, p.hs[i])
			}
			route.Handlers = hs
		}
	}
	if err != nil {
		return "t=ROUTE-ERROR:" + err.Error()
	}
	rr := httptest.NewRecorder()
	req := httptest.NewRequest(p.method, "/", nil)
	req.URL.Path = p.path
	esc := false
	func() {
		defer func() {
			if e := recover(); e != nil {
				esc = true
			}
		}()
		route.ServeHTTP(rr, req)
	}()
	wrote := reflect.ValueOf(rr).Elem().FieldByName("wroteHeader").Bool()
	ab := "-"
	if r.rp != nil {
		ab = b2s(r.rp.IsAborted())
	}
	st, wr, sz := -1, false, -1
	if r.w != nil {
		st, wr, sz = r.w.Status(), r.w.Written(), r.w.Size()
	}
	live := hdrStr(rr.Header())
	snap := hdrStr(rr.Result().Header)
	return fmt.Sprintf("t=%s esc=%s code=%d wrote=%s body=%s snap=%s live=%s st=%d wr=%s sz=%d ab=%s path=%s",
		strings.Join(r.tr, ","), b2s(esc), rr.Code, b2s(wrote), hex.EncodeToString(rr.Body.Bytes()),
		snap, live, st, b2s(wr), sz, ab, req.URL.Path)
}

func emit(w *bufio.Writer, p prog) {
	fmt.Fprintf(w, "%s\t%s\n", p.String(), runProg(p))
}

// ---------------------------------------------------------------------------- generators

func parseActs(ss ...string) []action {
	out := make([]action, len(ss))
	for i, s := range ss {
		a, err := parseAction(s)
		if err != nil {
			panic(err)
		}
		out[i] = a
	}
	return out
}

var alphaSmall = parseActs("N", "A", "H404", "Wab", "!")
var alphaMedium = parseActs("N", "A", "H404", "Wab", "!", "R", "S4=2")

// exhaustive enumerates every chain of 1..hmax handlers, each either the recovery middleware or a user
// handler of 0..amax actions over the alphabet
func exhaustive(w *bufio.Writer, alpha []action, hmax, amax, shard, shards int) {
	var hsAll []handler
	var rec func(pre []action, d int)
	rec = func(pre []action, d int) {
		hsAll = append(hsAll, handler{kind: "U", acts: append([]action(nil), pre...)})
		if d == amax {
			return
		}
		for _, a := range alpha {
			rec(append(pre, a), d+1)
		}
	}
	rec(nil, 0)
	hsAll = append(hsAll, handler{kind: "REC"})
	idx := 0
	var chain func(pre []handler, d int)
	chain = func(pre []handler, d int) {
		if d > 0 {
			if idx%shards == shard {
				p := prog{method: "GET", path: "/a", hs: append([]handler(nil), pre...)}
				p.final = finalEligible(p.hs) && (idx/shards)%2 == 0
				emit(w, p)
			}
			idx++
		}
		if d == hmax {
			return
		}
		for _, h := range hsAll {
			chain(append(pre, h), d+1)
		}
	}
	chain(nil, 0)
}

var methods = []string{"GET", "POST", "PUT", "DELETE", "HEAD", "OPTIONS", "PATCH"}
var finalCodes = []int{200, 200, 201, 204, 301, 304, 400, 401, 403, 404, 500, 503, 599, 999}
var infoCodes = []int{100, 103, 199}
var invalidCodes = []int{0, 99, 1000, 7}
var bodies = []string{"", "a", "ok", "hello", "notfound", "zzzzzzzzzzzz"}
var segs = []string{"a", "b", "ab"}

func genPath(r *prng.R) string {
	switch r.Intn(12) {
	case 0:
		return "/"
	case 1:
		return ""
	}
	n := 1 + r.Intn(3)
	s := ""
	for i := 0; i < n; i++ {
		s += "/" + prng.Pick(r, segs)
	}
	if r.Chance(1, 5) {
		s += "/"
	}
	return s
}

// a prefix that mostly matches the path (at a segment boundary), in one of the spellings New normalises
func genPrefix(r *prng.R, path string) string {
	if r.Chance(1, 6) {
		return prng.Pick(r, []string{"", "/", "a", "/b/", "/ab", "x", "/a/b/", "a/"})
	}
	parts := strings.Split(strings.Trim(path, "/"), "/")
	k := r.Intn(len(parts) + 1)
	core := strings.Join(parts[:k], "/")
	switch r.Intn(4) {
	case 0:
		return core
	case 1:
		return "/" + core
	case 2:
		return core + "/"
	}
	return "/" + core + "/"
}

func genKV(r *prng.R) (int, int) {
	return prng.Pick(r, []int{0, 2, 3, 4, 4, 5, 5, 6}), prng.Pick(r, []int{0, 1, 2, 3, 4})
}

func genHdrAct(r *prng.R) action {
	k, v := genKV(r)
	switch r.Intn(3) {
	case 0:
		return action{op: 'S', k: k, v: v}
	case 1:
		return action{op: 'P', k: k, v: v}
	}
	return action{op: 'X', k: k}
}

func genBody(r *prng.R) string {
	if r.Chance(1, 4) {
		n := r.Intn(9)
		b := make([]byte, n)
		for i := range b {
			b[i] = byte('a' + r.Intn(26))
		}
		return string(b)
	}
	return prng.Pick(r, bodies)
}

func genBuiltin(r *prng.R, path string) handler {
	switch r.Intn(9) {
	case 0, 1:
		return handler{kind: "REC"}
	case 2:
		return handler{kind: "LOG"}
	case 3:
		return handler{kind: "MET"}
	case 4:
		n := r.Intn(4)
		h := handler{kind: "HDR"}
		for i := 0; i < n; i++ {
			k, v := genKV(r)
			h.kvs = append(h.kvs, [2]int{k, v})
		}
		return h
	case 5:
		h := handler{kind: "OPS"}
		for i := r.Intn(3); i > 0; i-- {
			k, _ := genKV(r)
			h.dels = append(h.dels, k)
		}
		for i := r.Intn(3); i > 0; i-- {
			k, v := genKV(r)
			h.sets = append(h.sets, [2]int{k, v})
		}
		for i := r.Intn(3); i > 0; i-- {
			k, v := genKV(r)
			h.adds = append(h.adds, [2]int{k, v})
		}
		return h
	case 6:
		return handler{kind: "ST", v: 2 + r.Intn(4)}
	}
	return handler{kind: "WC", pfx: genPrefix(r, path)}
}

// the mostly-valid stream: middlewares shaped pre* Next post*, a terminal handler that answers,
// with the occasional guard (status+body+Abort), panic, or early return
func genValid(r *prng.R) prog {
	p := prog{method: prng.Pick(r, methods), path: genPath(r)}
	n := 1 + r.Intn(8)
	for i := 0; i < n; i++ {
		last := i == n-1
		if i == 0 && n > 1 && r.Chance(1, 3) { // the usual place of the recovery middleware
			p.hs = append(p.hs, handler{kind: "REC"})
			continue
		}
		if !last && r.Chance(3, 10) {
			p.hs = append(p.hs, genBuiltin(r, p.path))
			continue
		}
		var acts []action
		if last {
			for j := r.Intn(2); j > 0; j-- {
				acts = append(acts, genHdrAct(r))
			}
			if r.Chance(1, 10) {
				acts = append(acts, action{op: '!'})
			}
			if r.Chance(3, 4) {
				acts = append(acts, action{op: 'H', code: prng.Pick(r, finalCodes)})
			}
			if r.Chance(4, 5) {
				acts = append(acts, action{op: 'W', data: genBody(r)})
			}
			if r.Chance(1, 4) {
				acts = append(acts, action{op: 'W', data: genBody(r)})
			}
		} else {
			for j := r.Intn(3); j > 0; j-- {
				acts = append(acts, genHdrAct(r))
			}
			switch r.Intn(12) {
			case 0: // guard that refuses
				acts = append(acts, action{op: 'H', code: prng.Pick(r, []int{401, 403, 429})},
					action{op: 'W', data: genBody(r)}, action{op: 'A'}, action{op: 'R'})
			case 1:
				acts = append(acts, action{op: '!'})
			case 2: // forgets Next: the loop still runs the rest
			case 3: // writes before Next
				acts = append(acts, action{op: 'W', data: genBody(r)}, action{op: 'N'})
			default:
				acts = append(acts, action{op: 'N'})
				for j := r.Intn(3); j > 0; j-- {
					if r.Chance(1, 3) {
						acts = append(acts, action{op: 'W', data: genBody(r)})
					} else {
						acts = append(acts, genHdrAct(r))
					}
				}
			}
		}
		if len(acts) > 6 {
			acts = acts[:6]
		}
		p.hs = append(p.hs, handler{kind: "U", acts: acts})
	}
	p.final = finalEligible(p.hs) && r.Chance(2, 3)
	return p
}

// the weird stream: any action anywhere, repeated Next, Abort before Next, panics, 1xx / no-body /
// out-of-range status codes
func genWeird(r *prng.R) prog {
	p := prog{method: prng.Pick(r, methods), path: genPath(r)}
	n := 1 + r.Intn(8)
	for i := 0; i < n; i++ {
		if i == 0 && n > 1 && r.Chance(1, 3) {
			p.hs = append(p.hs, handler{kind: "REC"})
			continue
		}
		if r.Chance(1, 4) {
			p.hs = append(p.hs, genBuiltin(r, p.path))
			continue
		}
		m := r.Intn(7)
		acts := make([]action, 0, m)
		for j := 0; j < m; j++ {
			switch r.Intn(16) {
			case 0, 1, 2, 3:
				acts = append(acts, action{op: 'N'})
			case 4, 5:
				acts = append(acts, action{op: 'A'})
			case 6:
				acts = append(acts, action{op: '!'})
			case 7:
				acts = append(acts, action{op: 'R'})
			case 8, 9:
				c := prng.Pick(r, finalCodes)
				if r.Chance(1, 6) {
					c = prng.Pick(r, infoCodes)
				} else if r.Chance(1, 8) {
					c = prng.Pick(r, invalidCodes)
				}
				acts = append(acts, action{op: 'H', code: c})
			case 10, 11, 12:
				acts = append(acts, action{op: 'W', data: genBody(r)})
			default:
				acts = append(acts, genHdrAct(r))
			}
		}
		p.hs = append(p.hs, handler{kind: "U", acts: acts})
	}
	p.final = finalEligible(p.hs) && r.Bool()
	return p
}

func main() {
	mode := flag.String("mode", "exhaustive", "exhaustive|random|corpus")
	alpha := flag.String("alpha", "small", "small|medium alphabet for exhaustive mode")
	hmax := flag.Int("hmax", 2, "max handlers (exhaustive)")
	amax := flag.Int("amax", 2, "max actions per handler (exhaustive)")
	n := flag.Int("n", 10000, "number of random cases")
	seed := flag.Uint64("seed", 1, "PRNG seed")
	shard := flag.Int("shard", 0, "shard index")
	shards := flag.Int("shards", 1, "number of shards")
	file := flag.String("file", "", "corpus file: one PROG per line")
	flag.Parse()
	slog.SetDefault(slog.New(&capture{kind: 'M'}))
	w := bufio.NewWriterSize(os.Stdout, 1<<20)
	defer w.Flush()
	switch *mode {
	case "exhaustive":
		a := alphaSmall
		if *alpha == "medium" {
			a = alphaMedium
		}
		exhaustive(w, a, *hmax, *amax, *shard, *shards)
	case "random":
		r := prng.New(*seed + uint64(*shard)*0x9E37)
		seen := map[string]bool{}
		for i := 0; i < *n; i++ {
			var p prog
			if r.Chance(3, 4) {
				p = genValid(r)
			} else {
				p = genWeird(r)
			}
			s := p.String()
			if seen[s] {
				continue // only distinct programs are emitted
			}
			seen[s] = true
			emit(w, p)
		}
	case "corpus":
		f, err := os.Open(*file)
		if err != nil {
			fmt.Fprintln(os.Stderr, err)
			os.Exit(2)
		}
		sc := bufio.NewScanner(f)
		sc.Buffer(make([]byte, 1<<20), 1<<20)
		for sc.Scan() {
			line := strings.TrimRight(sc.Text(), "\r\n")
			if strings.TrimSpace(line) == "" || strings.HasPrefix(line, "#") {
				continue
			}
			p, err := parseProg(line)
			if err != nil {
				fmt.Fprintln(os.Stderr, "bad corpus line:", line, err)
				os.Exit(2)
			}
			emit(w, p)
		}
	}
}
