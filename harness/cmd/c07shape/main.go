// c07shape is the C07 source-fact translator (go/ast, stdlib only).  For each of the three
// bundled runnables built on lifecycle.StartStop it checks that Run()/Stop() have the shape the
// runner skeleton of coq/model/LifecycleRunner.v models, and emits coq/gen/RunnerShape.v
// (one record of booleans per runner).  props/C07.v proves `all_ok RunnerShape.shapes = true`
// by vm_compute, so a refactoring that leaves the pattern breaks that obligation.
//
//	started_first   Run's first statement (logger-only statements aside) is `done := r.lc.Started()`
//	defer_done      the statement right after it is `defer done()`  (so every exit path runs done)
//	stop_is_lc_stop Stop's body (logger-only statements aside) is exactly `r.lc.Stop()`
//	stopch_in_select Run contains a select with a `case <-r.lc.StopCh():` clause
//	lc_only_so      the package's non-test files use the lc field nowhere else
//	                (exactly one Started, one Stop, >=1 StopCh inside Run, nothing more)
//
// usage: c07shape -repo /repo [-o coq/gen/RunnerShape.v]     (prints the file to stdout without -o)
package main

import (
	"flag"
	"fmt"
	"go/ast"
	"go/parser"
	"go/token"
	"os"
	"path/filepath"
	"sort"
	"strings"
)

type shape struct {
	name                                                            string
	startedFirst, deferDone, stopIsLcStop, stopChInSelect, lcOnlySo bool
	detail                                                          []string
}

var runners = []struct{ name, dir string }{
	{"composite", "runnables/composite"},
	{"httpserver", "runnables/httpserver"},
	{"httpcluster", "runnables/httpcluster"},
}

// isLcCall reports whether e is `<recv>.lc.<method>()` with no arguments.
func isLcCall(e ast.Expr, method string) bool {
	c, ok := e.(*ast.CallExpr)
	if !ok || len(c.Args) != 0 {
		return false
	}
	sel, ok := c.Fun.(*ast.SelectorExpr)
	if !ok || sel.Sel.Name != method {
		return false
	}
	in, ok := sel.X.(*ast.SelectorExpr)
	if !ok || in.Sel.Name != "lc" {
		return false
	}
	_, ok = in.X.(*ast.Ident)
	return ok
}

// rootIsLogger: the expression is a call chain rooted at `logger` or `<recv>.logger`.
func rootIsLogger(e ast.Expr) bool {
	for {
		switch x := e.(type) {
		case *ast.CallExpr:
			e = x.Fun
		case *ast.SelectorExpr:
			if x.Sel.Name == "logger" {
				if _, ok := x.X.(*ast.Ident); ok {
					return true
				}
			}
			e = x.X
		case *ast.Ident:
			return x.Name == "logger"
		default:
			return false
		}
	}
}

// loggerOnly: `logger := r.logger.WithGroup(..)` or `logger.Debug(..)` / `r.logger.Debug(..)`.
func loggerOnly(s ast.Stmt) bool {
	switch x := s.(type) {
	case *ast.ExprStmt:
		return rootIsLogger(x.X)
	case *ast.AssignStmt:
		if len(x.Lhs) == 1 && len(x.Rhs) == 1 {
			if id, ok := x.Lhs[0].(*ast.Ident); ok && id.Name == "logger" {
				return rootIsLogger(x.Rhs[0])
			}
		}
	}
	return false
}

func method(files []*ast.File, name string) *ast.FuncDecl {
	for _, f := range files {
		for _, d := range f.Decls {
			fd, ok := d.(*ast.FuncDecl)
			if !ok || fd.Recv == nil || fd.Name.Name != name || fd.Body == nil || len(fd.Recv.List) != 1 {
				continue
			}
			t := fd.Recv.List[0].Type
			if st, ok := t.(*ast.StarExpr); ok {
				t = st.X
			}
			if ix, ok := t.(*ast.IndexExpr); ok { // Runner[T]
				t = ix.X
			}
			if id, ok := t.(*ast.Ident); ok && id.Name == "Runner" {
				return fd
			}
		}
	}
	return nil
}

func analyse(repo, name, dir string) shape {
	sh := shape{name: name}
	fset := token.NewFileSet()
	paths, _ := filepath.Glob(filepath.Join(repo, dir, "*.go"))
	sort.Strings(paths)
	var files []*ast.File
	for _, p := range paths {
		if strings.HasSuffix(p, "_test.go") {
			continue
		}
		f, err := parser.ParseFile(fset, p, nil, 0)
		if err != nil {
			sh.detail = append(sh.detail, "parse error: "+err.Error())
			return sh
		}
		files = append(files, f)
	}
	run, stop := method(files, "Run"), method(files, "Stop")
	if run == nil || stop == nil {
		sh.detail = append(sh.detail, "Run or Stop method of Runner not found")
		return sh
	}
	// Run: [logger-only]* ; done := r.lc.Started() ; defer done() ; ...
	body := run.Body.List
	i := 0
	for i < len(body) && loggerOnly(body[i]) {
		i++
	}
	if i < len(body) {
		if as, ok := body[i].(*ast.AssignStmt); ok && as.Tok == token.DEFINE && len(as.Lhs) == 1 && len(as.Rhs) == 1 {
			if id, ok := as.Lhs[0].(*ast.Ident); ok && id.Name == "done" && isLcCall(as.Rhs[0], "Started") {
				sh.startedFirst = true
			}
		}
	}
	if sh.startedFirst && i+1 < len(body) {
		if df, ok := body[i+1].(*ast.DeferStmt); ok && len(df.Call.Args) == 0 {
			if id, ok := df.Call.Fun.(*ast.Ident); ok && id.Name == "done" {
				sh.deferDone = true
			}
		}
	}
	// Stop: [logger-only]* ; r.lc.Stop() ; [logger-only]*
	var rest []ast.Stmt
	for _, s := range stop.Body.List {
		if !loggerOnly(s) {
			rest = append(rest, s)
		}
	}
	if len(rest) == 1 {
		if es, ok := rest[0].(*ast.ExprStmt); ok && isLcCall(es.X, "Stop") {
			sh.stopIsLcStop = true
		}
	}
	// a select in Run with `case <-r.lc.StopCh():`
	ast.Inspect(run.Body, func(n ast.Node) bool {
		sel, ok := n.(*ast.SelectStmt)
		if !ok {
			return true
		}
		for _, c := range sel.Body.List {
			cc := c.(*ast.CommClause)
			if es, ok := cc.Comm.(*ast.ExprStmt); ok {
				if u, ok := es.X.(*ast.UnaryExpr); ok && u.Op == token.ARROW && isLcCall(u.X, "StopCh") {
					sh.stopChInSelect = true
				}
			}
		}
		return true
	})
	// every use of the lc field in the package
	uses := map[string]int{}
	other := 0
	for _, f := range files {
		var inFn string
		for _, d := range f.Decls {
			inFn = ""
			if fd, ok := d.(*ast.FuncDecl); ok {
				inFn = fd.Name.Name
			}
			parent := map[ast.Node]ast.Node{}
			var stack []ast.Node
			ast.Inspect(d, func(n ast.Node) bool {
				if n == nil {
					stack = stack[:len(stack)-1]
					return true
				}
				if len(stack) > 0 {
					parent[n] = stack[len(stack)-1]
				}
				stack = append(stack, n)
				return true
			})
			ast.Inspect(d, func(n ast.Node) bool {
				sel, ok := n.(*ast.SelectorExpr)
				if !ok || sel.Sel.Name != "lc" {
					return true
				}
				// must be the X of a method selector that is called
				ok2 := false
				if p, ok := parent[sel].(*ast.SelectorExpr); ok && p.X == sel {
					if c, ok := parent[p].(*ast.CallExpr); ok && c.Fun == p {
						uses[inFn+"."+p.Sel.Name]++
						ok2 = true
					}
				}
				if !ok2 {
					other++
				}
				return true
			})
		}
	}
	sh.lcOnlySo = other == 0 && uses["Run.Started"] == 1 && uses["Stop.Stop"] == 1 && uses["Run.StopCh"] >= 1 &&
		len(uses) == 3
	var ks []string
	for k, v := range uses {
		ks = append(ks, fmt.Sprintf("%s x%d", k, v))
	}
	sort.Strings(ks)
	sh.detail = append(sh.detail, "lc uses: "+strings.Join(ks, ", ")+fmt.Sprintf("; other=%d", other))
	return sh
}

func b(x bool) string {
	if x {
		return "true"
	}
	return "false"
}

func main() {
	repo := flag.String("repo", "/repo", "")
	out := flag.String("o", "", "output file (only rewritten when the content changes)")
	flag.Parse()
	var sb strings.Builder
	sb.WriteString("(* GENERATED by harness/cmd/c07shape from the repo under test -- do not edit.\n")
	sb.WriteString("   Shape of Run()/Stop() of the three bundled runnables built on lifecycle.StartStop. *)\n")
	sb.WriteString("From Coq Require Import String List Bool.\nFrom GS Require Import LifecycleRunner.\nImport ListNotations.\nOpen Scope string_scope.\n\n")
	sb.WriteString("Definition shapes : list shape := [\n")
	allok := true
	for i, r := range runners {
		sh := analyse(*repo, r.name, r.dir)
		ok := sh.startedFirst && sh.deferDone && sh.stopIsLcStop && sh.stopChInSelect && sh.lcOnlySo
		allok = allok && ok
		sep := ";"
		if i == len(runners)-1 {
			sep = ""
		}
		fmt.Fprintf(&sb, "  (* %s *)\n  mkShape \"%s\" %s %s %s %s %s%s\n", strings.Join(sh.detail, "; "), sh.name,
			b(sh.startedFirst), b(sh.deferDone), b(sh.stopIsLcStop), b(sh.stopChInSelect), b(sh.lcOnlySo), sep)
		fmt.Fprintf(os.Stderr, "shape %s started_first=%v defer_done=%v stop_is_lc_stop=%v stopch_in_select=%v lc_only_so=%v\n",
			sh.name, sh.startedFirst, sh.deferDone, sh.stopIsLcStop, sh.stopChInSelect, sh.lcOnlySo)
	}
	sb.WriteString("].\n")
	txt := sb.String()
	if *out == "" {
		fmt.Print(txt)
	} else {
		old, err := os.ReadFile(*out)
		if err != nil || string(old) != txt {
			if err := os.MkdirAll(filepath.Dir(*out), 0o755); err != nil {
				fmt.Fprintln(os.Stderr, err)
				os.Exit(2)
			}
			if err := os.WriteFile(*out, []byte(txt), 0o644); err != nil {
				fmt.Fprintln(os.Stderr, err)
				os.Exit(2)
			}
		}
	}
	if !allok {
		os.Exit(1)
	}
}
