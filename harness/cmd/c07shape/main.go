// c07shape is the C07 source-fact translator (go/ast, stdlib only).  For each of the three
// bundled runnables built on lifecycle.StartStop it checks that Run()/Stop() have the shape the
// runner skeleton of coq/model/LifecycleRunner.v models, and emits coq/gen/RunnerShape.v
// (one record of booleans per runner).  props/C07.v proves `all_ok RunnerShape.shapes = true`
// by vm_compute, so a refactoring that leaves the pattern breaks that obligation.
//
// "lc" below stands for the Runner field whose declared type is *lifecycle.StartStop, whatever
// its name; local variable names, logger names and the split of Run/Stop into unexported helper
// methods of Runner are irrelevant (helpers are inlined up to depth 3), so that a behaviour-
// preserving refactoring does not change the extracted facts.
//
//	started_first   Run reaches `d := r.lc.Started()` before any statement that could leave Run,
//	                block on a channel, spawn a goroutine, loop, defer or touch lc
//	                (log-only statements and straight-line statements are allowed before it)
//	defer_done      the next statement (log-only ones aside) is `defer d()`  (every exit path runs it)
//	stop_is_lc_stop Stop's body (log-only statements aside, helpers inlined) is exactly `r.lc.Stop()`
//	stopch_in_select Run (helpers included) contains a select with a `case <-r.lc.StopCh():` clause
//	lc_only_so      the package's non-test files use the lc field nowhere else
//	                (exactly one Started call, one Stop call, >=1 StopCh call, nothing more)
//	done_only_deferred the identifier d bound by Started() occurs in Run exactly twice: its
//	                binding and `defer d()` - no early d(), no `go d()`, not passed to a helper,
//	                not captured by a closure, not reassigned (the skeleton's LDone happens only
//	                when Run returns)
//
// usage: c07shape -repo /repo [-o coq/gen/RunnerShape.v]     (prints the file to stdout without -o)
package main

import (
	"flag"
	"fmt"
	"go/ast"
	"go/parser"
	"go/token"
	"os"
	"path/filepath"
	"sort"
	"strings"
)

type shape struct {
	name                                                            string
	startedFirst, deferDone, stopIsLcStop, stopChInSelect, lcOnlySo bool
	doneOnlyDeferred                                                bool
	detail                                                          []string
}

var runners = []struct{ name, dir string }{
	{"composite", "runnables/composite"},
	{"httpserver", "runnables/httpserver"},
	{"httpcluster", "runnables/httpcluster"},
}

// lcField is the name of the Runner field of type *lifecycle.StartStop in the package being
// analysed (set by analyse; "" = not found).
var lcField string

// isLcCall reports whether e is `<recv>.<lcField>.<method>()` with no arguments.
func isLcCall(e ast.Expr, method string) bool {
	c, ok := e.(*ast.CallExpr)
	if !ok || len(c.Args) != 0 {
		return false
	}
	sel, ok := c.Fun.(*ast.SelectorExpr)
	if !ok || sel.Sel.Name != method {
		return false
	}
	in, ok := sel.X.(*ast.SelectorExpr)
	if !ok || lcField == "" || in.Sel.Name != lcField {
		return false
	}
	_, ok = in.X.(*ast.Ident)
	return ok
}

func logName(n string) bool {
	n = strings.ToLower(n)
	return strings.Contains(n, "log") || n == "l" || n == "lg"
}

// rootIsLogger: the expression is a call chain rooted at an identifier or a receiver field whose
// name says it is a logger (`logger`, `log`, `r.logger`, `r.log` ...).
func rootIsLogger(e ast.Expr) bool {
	for {
		switch x := e.(type) {
		case *ast.CallExpr:
			e = x.Fun
		case *ast.SelectorExpr:
			if logName(x.Sel.Name) {
				if _, ok := x.X.(*ast.Ident); ok {
					return true
				}
			}
			e = x.X
		case *ast.Ident:
			return logName(x.Name)
		default:
			return false
		}
	}
}

// loggerOnly: `logger := r.logger.WithGroup(..)` or `logger.Debug(..)` / `r.logger.Debug(..)`.
func loggerOnly(s ast.Stmt) bool {
	switch x := s.(type) {
	case *ast.ExprStmt:
		return rootIsLogger(x.X)
	case *ast.AssignStmt:
		if len(x.Lhs) == 1 && len(x.Rhs) == 1 {
			if id, ok := x.Lhs[0].(*ast.Ident); ok && logName(id.Name) {
				return rootIsLogger(x.Rhs[0])
			}
		}
	}
	return false
}

func recvTypeName(fd *ast.FuncDecl) string {
	if fd.Recv == nil || len(fd.Recv.List) != 1 {
		return ""
	}
	t := fd.Recv.List[0].Type
	if st, ok := t.(*ast.StarExpr); ok {
		t = st.X
	}
	if ix, ok := t.(*ast.IndexExpr); ok { // Runner[T]
		t = ix.X
	}
	if ix, ok := t.(*ast.IndexListExpr); ok {
		t = ix.X
	}
	if id, ok := t.(*ast.Ident); ok {
		return id.Name
	}
	return ""
}

// methods of Runner, by name
func runnerMethods(files []*ast.File) map[string]*ast.FuncDecl {
	m := map[string]*ast.FuncDecl{}
	for _, f := range files {
		for _, d := range f.Decls {
			if fd, ok := d.(*ast.FuncDecl); ok && fd.Body != nil && recvTypeName(fd) == "Runner" {
				m[fd.Name.Name] = fd
			}
		}
	}
	return m
}

// findLcField: the field of `type Runner struct` declared as *<alias>.StartStop where <alias> is the
// file's local name for an import path ending in /supervisor/lifecycle.
func findLcField(files []*ast.File) (string, int) {
	name, n := "", 0
	for _, f := range files {
		alias := ""
		for _, im := range f.Imports {
			if strings.HasSuffix(strings.Trim(im.Path.Value, "\""), "/supervisor/lifecycle") {
				alias = "lifecycle"
				if im.Name != nil {
					alias = im.Name.Name
				}
			}
		}
		if alias == "" {
			continue
		}
		for _, d := range f.Decls {
			gd, ok := d.(*ast.GenDecl)
			if !ok {
				continue
			}
			for _, sp := range gd.Specs {
				ts, ok := sp.(*ast.TypeSpec)
				if !ok || ts.Name.Name != "Runner" {
					continue
				}
				st, ok := ts.Type.(*ast.StructType)
				if !ok {
					continue
				}
				for _, fl := range st.Fields.List {
					t := fl.Type
					if se, ok := t.(*ast.StarExpr); ok {
						t = se.X
					}
					sel, ok := t.(*ast.SelectorExpr)
					if !ok || sel.Sel.Name != "StartStop" {
						continue
					}
					if id, ok := sel.X.(*ast.Ident); ok && id.Name == alias {
						for _, nm := range fl.Names {
							name = nm.Name
							n++
						}
					}
				}
			}
		}
	}
	return name, n
}

// helperCall: s is `r.<m>(...)` as a statement, m an (unexported or exported) method of Runner.
func helperCall(s ast.Stmt, ms map[string]*ast.FuncDecl) *ast.FuncDecl {
	es, ok := s.(*ast.ExprStmt)
	if !ok {
		return nil
	}
	c, ok := es.X.(*ast.CallExpr)
	if !ok {
		return nil
	}
	sel, ok := c.Fun.(*ast.SelectorExpr)
	if !ok {
		return nil
	}
	if _, ok := sel.X.(*ast.Ident); !ok {
		return nil
	}
	return ms[sel.Sel.Name]
}

// flat: the statements of a body with log-only statements dropped and statement-level calls of
// Runner helper methods replaced by the helper's (flattened) body.
func flat(list []ast.Stmt, ms map[string]*ast.FuncDecl, depth int) []ast.Stmt {
	var out []ast.Stmt
	for _, s := range list {
		if loggerOnly(s) {
			continue
		}
		if h := helperCall(s, ms); h != nil && depth > 0 {
			out = append(out, flat(h.Body.List, ms, depth-1)...)
			continue
		}
		out = append(out, s)
	}
	return out
}

// mayLeaveOrBlock: the statement contains something that must not precede Started(): a way out of
// Run, a channel operation, a goroutine, a loop, a defer, or a use of the lifecycle field.
func mayLeaveOrBlock(s ast.Stmt) bool {
	bad := false
	ast.Inspect(s, func(n ast.Node) bool {
		switch x := n.(type) {
		case *ast.ReturnStmt, *ast.GoStmt, *ast.SelectStmt, *ast.SendStmt, *ast.DeferStmt, *ast.ForStmt,
			*ast.RangeStmt, *ast.BranchStmt, *ast.FuncLit:
			bad = true
		case *ast.UnaryExpr:
			if x.Op == token.ARROW {
				bad = true
			}
		case *ast.SelectorExpr:
			if lcField != "" && x.Sel.Name == lcField {
				bad = true
			}
		case *ast.CallExpr:
			if id, ok := x.Fun.(*ast.Ident); ok && id.Name == "panic" {
				bad = true
			}
		}
		return !bad
	})
	return bad
}

// reachable bodies: Run plus the Runner methods it calls, transitively (depth 3)
func reachableBodies(fd *ast.FuncDecl, ms map[string]*ast.FuncDecl, depth int, seen map[string]bool, out *[]*ast.BlockStmt) {
	*out = append(*out, fd.Body)
	if depth == 0 {
		return
	}
	ast.Inspect(fd.Body, func(n ast.Node) bool {
		c, ok := n.(*ast.CallExpr)
		if !ok {
			return true
		}
		if sel, ok := c.Fun.(*ast.SelectorExpr); ok {
			if _, ok := sel.X.(*ast.Ident); ok {
				if h := ms[sel.Sel.Name]; h != nil && !seen[sel.Sel.Name] {
					seen[sel.Sel.Name] = true
					reachableBodies(h, ms, depth-1, seen, out)
				}
			}
		}
		return true
	})
}

func analyse(repo, name, dir string) shape {
	sh := shape{name: name}
	fset := token.NewFileSet()
	paths, _ := filepath.Glob(filepath.Join(repo, dir, "*.go"))
	sort.Strings(paths)
	var files []*ast.File
	for _, p := range paths {
		if strings.HasSuffix(p, "_test.go") {
			continue
		}
		f, err := parser.ParseFile(fset, p, nil, 0)
		if err != nil {
			sh.detail = append(sh.detail, "parse error: "+err.Error())
			return sh
		}
		files = append(files, f)
	}
	var nf int
	lcField, nf = findLcField(files)
	if nf != 1 {
		sh.detail = append(sh.detail, fmt.Sprintf("Runner has %d fields of type *lifecycle.StartStop (want 1)", nf))
		lcField = ""
		return sh
	}
	ms := runnerMethods(files)
	run, stop := ms["Run"], ms["Stop"]
	if run == nil || stop == nil {
		sh.detail = append(sh.detail, "Run or Stop method of Runner not found")
		return sh
	}
	// Run: [statements that cannot leave/block]* ; d := r.lc.Started() ; [log-only]* ; defer d() ; ...
	body := run.Body.List
	i, doneName := 0, ""
	for i < len(body) {
		if as, ok := body[i].(*ast.AssignStmt); ok && as.Tok == token.DEFINE && len(as.Lhs) == 1 && len(as.Rhs) == 1 {
			if id, ok := as.Lhs[0].(*ast.Ident); ok && isLcCall(as.Rhs[0], "Started") {
				sh.startedFirst, doneName = true, id.Name
				break
			}
		}
		if !loggerOnly(body[i]) && mayLeaveOrBlock(body[i]) {
			break
		}
		i++
	}
	if sh.startedFirst {
		j := i + 1
		for j < len(body) && loggerOnly(body[j]) {
			j++
		}
		if j < len(body) {
			if df, ok := body[j].(*ast.DeferStmt); ok && len(df.Call.Args) == 0 {
				if id, ok := df.Call.Fun.(*ast.Ident); ok && id.Name == doneName {
					sh.deferDone = true
				}
			}
		}
	}
	if sh.deferDone {
		n := 0
		ast.Inspect(run.Body, func(x ast.Node) bool {
			if id, ok := x.(*ast.Ident); ok && id.Name == doneName {
				n++
			}
			return true
		})
		sh.doneOnlyDeferred = n == 2
		sh.detail = append(sh.detail, fmt.Sprintf("%s occurs %d times in Run", doneName, n))
	}
	// Stop: [log-only]* ; r.lc.Stop() ; [log-only]*   (helper methods inlined)
	rest := flat(stop.Body.List, ms, 3)
	if len(rest) == 1 {
		if es, ok := rest[0].(*ast.ExprStmt); ok && isLcCall(es.X, "Stop") {
			sh.stopIsLcStop = true
		}
	}
	// a select in Run (or in a Runner method Run calls) with `case <-r.lc.StopCh():`
	var bodies []*ast.BlockStmt
	reachableBodies(run, ms, 3, map[string]bool{"Run": true}, &bodies)
	for _, bd := range bodies {
		ast.Inspect(bd, func(n ast.Node) bool {
			sel, ok := n.(*ast.SelectStmt)
			if !ok {
				return true
			}
			for _, c := range sel.Body.List {
				cc := c.(*ast.CommClause)
				if es, ok := cc.Comm.(*ast.ExprStmt); ok {
					if u, ok := es.X.(*ast.UnaryExpr); ok && u.Op == token.ARROW && isLcCall(u.X, "StopCh") {
						sh.stopChInSelect = true
					}
				}
			}
			return true
		})
	}
	// every use of the lc field in the package
	uses := map[string]int{}
	other := 0
	for _, f := range files {
		for _, d := range f.Decls {
			parent := map[ast.Node]ast.Node{}
			var stack []ast.Node
			ast.Inspect(d, func(n ast.Node) bool {
				if n == nil {
					stack = stack[:len(stack)-1]
					return true
				}
				if len(stack) > 0 {
					parent[n] = stack[len(stack)-1]
				}
				stack = append(stack, n)
				return true
			})
			ast.Inspect(d, func(n ast.Node) bool {
				sel, ok := n.(*ast.SelectorExpr)
				if !ok || sel.Sel.Name != lcField {
					return true
				}
				// must be the X of a method selector that is called
				ok2 := false
				if p, ok := parent[sel].(*ast.SelectorExpr); ok && p.X == sel {
					if c, ok := parent[p].(*ast.CallExpr); ok && c.Fun == p {
						uses[p.Sel.Name]++
						ok2 = true
					}
				}
				if !ok2 {
					other++
				}
				return true
			})
		}
	}
	sh.lcOnlySo = other == 0 && uses["Started"] == 1 && uses["Stop"] == 1 && uses["StopCh"] >= 1 && len(uses) == 3
	var ks []string
	for k, v := range uses {
		ks = append(ks, fmt.Sprintf("%s x%d", k, v))
	}
	sort.Strings(ks)
	sh.detail = append(sh.detail, "lc uses: "+strings.Join(ks, ", ")+fmt.Sprintf("; other=%d", other))
	return sh
}

func b(x bool) string {
	if x {
		return "true"
	}
	return "false"
}

func main() {
	repo := flag.String("repo", "/repo", "")
	out := flag.String("o", "", "output file (only rewritten when the content changes)")
	flag.Parse()
	var sb strings.Builder
	sb.WriteString("(* GENERATED by harness/cmd/c07shape from the repo under test -- do not edit.\n")
	sb.WriteString("   Shape of Run()/Stop() of the three bundled runnables built on lifecycle.StartStop. *)\n")
	sb.WriteString("From Coq Require Import String List Bool.\nFrom GS Require Import LifecycleRunner.\nImport ListNotations.\nOpen Scope string_scope.\n\n")
	sb.WriteString("Definition shapes : list shape := [\n")
	allok := true
	for i, r := range runners {
		sh := analyse(*repo, r.name, r.dir)
		ok := sh.startedFirst && sh.deferDone && sh.stopIsLcStop && sh.stopChInSelect && sh.lcOnlySo && sh.doneOnlyDeferred
		allok = allok && ok
		sep := ";"
		if i == len(runners)-1 {
			sep = ""
		}
		fmt.Fprintf(&sb, "  (* %s *)\n  mkShape \"%s\" %s %s %s %s %s %s%s\n", strings.Join(sh.detail, "; "), sh.name,
			b(sh.startedFirst), b(sh.deferDone), b(sh.stopIsLcStop), b(sh.stopChInSelect), b(sh.lcOnlySo), b(sh.doneOnlyDeferred), sep)
		fmt.Fprintf(os.Stderr, "shape %s started_first=%v defer_done=%v stop_is_lc_stop=%v stopch_in_select=%v lc_only_so=%v done_only_deferred=%v\n",
			sh.name, sh.startedFirst, sh.deferDone, sh.stopIsLcStop, sh.stopChInSelect, sh.lcOnlySo, sh.doneOnlyDeferred)
	}
	sb.WriteString("].\n")
	txt := sb.String()
	if *out == "" {
		fmt.Print(txt)
	} else {
		old, err := os.ReadFile(*out)
		if err != nil || string(old) != txt {
			if err := os.MkdirAll(filepath.Dir(*out), 0o755); err != nil {
				fmt.Fprintln(os.Stderr, err)
				os.Exit(2)
			}
			if err := os.WriteFile(*out, []byte(txt), 0o644); err != nil {
				fmt.Fprintln(os.Stderr, err)
				os.Exit(2)
			}
		}
	}
	if !allok {
		os.Exit(1)
	}
}
