// c15probe documents what the httptest.ResponseRecorder-based C15 check cannot see: the behaviour of
// the response writer wrapper on a real net/http server for informational (1xx) status codes and for
// status codes net/http rejects.  It is not part of the check; notes/C15.md quotes its output.
package main

import (
	"fmt"
	"io"
	"net/http"
	"net/http/httptest"

	"github.com/robbyt/go-supervisor/runnables/httpserver"
	"github.com/robbyt/go-supervisor/runnables/httpserver/middleware/recovery"
)

func probe(name string, h http.HandlerFunc, mws ...httpserver.HandlerFunc) {
	var status, size int
	var written bool
	spy := func(rp *httpserver.RequestProcessor) {
		rp.Next()
		status, written, size = rp.Writer().Status(), rp.Writer().Written(), rp.Writer().Size()
	}
	route, err := httpserver.NewRouteFromHandlerFunc("r", "/", h, append([]httpserver.HandlerFunc{spy}, mws...)...)
	if err != nil {
		panic(err)
	}
	srv := httptest.NewServer(route)
	defer srv.Close()
	resp, err := http.Get(srv.URL)
	if err != nil {
		fmt.Printf("%-28s client error: %v | Status()=%d Written()=%v Size()=%d\n", name, err, status, written, size)
		return
	}
	body, _ := io.ReadAll(resp.Body)
	resp.Body.Close()
	fmt.Printf("%-28s client got %d body=%q | Status()=%d Written()=%v Size()=%d\n",
		name, resp.StatusCode, string(body), status, written, size)
}

func main() {
	probe("WriteHeader(103);(404);Write", func(w http.ResponseWriter, _ *http.Request) {
		w.WriteHeader(103)
		w.WriteHeader(404)
		_, _ = w.Write([]byte("abc"))
	})
	probe("WriteHeader(404);Write", func(w http.ResponseWriter, _ *http.Request) {
		w.WriteHeader(404)
		_, _ = w.Write([]byte("abc"))
	})
	probe("REC | WriteHeader(1000)", func(w http.ResponseWriter, _ *http.Request) {
		w.WriteHeader(1000)
	}, recovery.New(nil))
	probe("REC | panic", func(w http.ResponseWriter, _ *http.Request) {
		panic("boom")
	}, recovery.New(nil))
}
